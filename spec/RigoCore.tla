------------------------------ MODULE RigoCore ------------------------------
(***************************************************************************)
(* The rigo-go application (node.RigoApp with its governance, account and  *)
(* staking controllers) as a FUNCTION of its state:                        *)
(*                                                                         *)
(*     BeginBlock(s, hdr)   DeliverTx(s, tx)   EndBlock(s)   Commit(s)     *)
(*     CheckTx(s, tx)       Query(s, ...)      Restart(s)                  *)
(*                                                                         *)
(* each returning [s |-> new state, resp |-> response].  One operator per  *)
(* ABCI call; the sub-steps are operators composed in the order of the     *)
(* code (node/app.go, node/trx_executor.go, the controllers).  The state   *)
(* record                                                                  *)
(* has the shape of the projection the conformance harness records from    *)
(* the real code (DESIGN.md appendix A), so the property predicates of     *)
(* RigoProps.tla apply to model states and to recorded states alike.       *)
(* Amounts are exact (BigNat limbs, modulus 2^256).                        *)
(*                                                                         *)
(* Model-only fields:  tree (what the last Commit persisted: BeginBlock /  *)
(* EndBlock read the committed trees, not the consensus overlay),  hist    *)
(* (the delegatee ledger of every committed height, for the reward         *)
(* look-back).                                                             *)
(*                                                                         *)
(* Named deviations / quirks that follow the code:                         *)
(*  - the reward look-back reads ledger version max(1, H-4)  (finding D8); *)
(*  - the validator set last reported to consensus is empty until the end  *)
(*    of block 2 (genesis is not a committed version);                     *)
(*  - EndBlock freezes/applies proposals and refunds stakes as COMMITTED,  *)
(*    so a change made inside the block is not seen there;                 *)
(*  - a failed transaction still creates the (empty) receiver account;     *)
(*  - two proposals applied in one block: the later merge starts from the  *)
(*    active parameters.                                                   *)
(*  - the stake limiter's table is built at the beginning of the block     *)
(*    from the delegatees as COMMITTED, before evidence is processed: a     *)
(*    staking / unstaking against a delegatee slashed in the same block is  *)
(*    refused ("power object is not equal").                                *)
(* Not modelled here: contract execution (EvmBridge.tla; RigoConf.tla      *)
(* adopts the recorded effect of contract transactions).                   *)
(* s.mem is the mempool's scratch view (CheckTx).                          *)
(*                                                                         *)
(* s.rank : [name -> Nat] is the byte order of the addresses (ties in the  *)
(* power order, order of validator updates); it is part of the state so    *)
(* that one module serves the bounded models (a constant) and the traces   *)
(* (recorded per trace).                                                   *)
(***************************************************************************)
EXTENDS RigoProps, TLC

---------------------------------------------------------------------------
Put(f, k, v) == [x \in DOMAIN f \cup {k} |-> IF x = k THEN v ELSE f[x]]
Drop(f, k) == [x \in DOMAIN f \ {k} |-> f[x]]

Mod256(a) == IF BLt(a, Two256) THEN a ELSE BSub(a, Two256)       \* uint256 addition wraps (Account.AddBalance)

NoReward == [cum |-> <<>>, issued |-> <<>>, withdrawn |-> <<>>, slashed |-> <<>>, h |-> 0]
RewardOf(s, a) == IF a \in DOMAIN s.rewards THEN s.rewards[a] ELSE NoReward

AddBal(s, a, amt) == [s EXCEPT !.accts = Put(@, a, [Acct(s, a) EXCEPT !.bal = Mod256(BAdd(@, amt))])]
SubBal(s, a, amt) == [s EXCEPT !.accts = Put(@, a, [Acct(s, a) EXCEPT !.bal = BSub(@, amt)])]

MinPower(g) == ToNat(BDivE18(g.minValidatorStake))

Resp(ok, tx, used) == [ok |-> ok, code |-> IF ok THEN 0 ELSE 5, gasWanted |-> IF ok THEN tx.gas ELSE <<>>, gasUsed |-> used, data |-> "tnil"]
Fail(s, tx) == [s |-> s, resp |-> Resp(FALSE, tx, <<>>)]

---------------------------------------------------------------------------
(* delegatee helpers *)

Recount(d, name) == [d EXCEPT !.total = SumPow(d.stakes), !.self = SumPowIf(d.stakes, name)]
NewDelegatee == [self |-> 0, total |-> 0, slashed |-> 0, stakes |-> <<>>, missed |-> <<>>, pub |-> 33]

\* power order of the code: total desc, number of stakes desc, address desc
RankOf(rk, a) == IF a \in DOMAIN rk THEN rk[a] ELSE 0

Before(rk, da, a, db, b) ==
  \/ da.total > db.total
  \/ da.total = db.total /\ Len(da.stakes) > Len(db.stakes)
  \/ da.total = db.total /\ Len(da.stakes) = Len(db.stakes) /\ RankOf(rk, a) > RankOf(rk, b)

\* the first n names of `cands` in power order
TopN(rk, delegs, cands, n) ==
  {a \in cands : Cardinality({b \in cands : Before(rk, delegs[b], b, delegs[a], a)}) < n}

\* sequence of a set of names in ascending address order
RECURSIVE AscSeq(_, _)
AscSeq(rk, S) == IF S = {} THEN <<>>
                 ELSE LET m == CHOOSE x \in S : \A y \in S : RankOf(rk, x) <= RankOf(rk, y) IN <<m>> \o AscSeq(rk, S \ {m})

\* the names of `cands` as a sequence in power order (PowerOrderDelegatees)
RECURSIVE PowerSeq(_, _, _)
PowerSeq(rk, delegs, cands) ==
  IF cands = {} THEN <<>>
  ELSE LET m == CHOOSE x \in cands : \A y \in cands \ {x} : Before(rk, delegs[x], x, delegs[y], y)
       IN <<m>> \o PowerSeq(rk, delegs, cands \ {m})

---------------------------------------------------------------------------
(* the stake limiter (ctrlers/stake/limiter.go): per-block limits on how much voting power may move *)

NoLimiter == [on |-> FALSE, base |-> 0, updated |-> 0, objs |-> <<>>]

\* Reset: the table is the eligible delegatees in power order; base = power of the first maxValidatorCnt of them
LimReset(rk, cands, g, on) ==
  LET order == PowerSeq(rk, cands, DOMAIN cands) IN
  [on |-> on, updated |-> 0,
   objs |-> [i \in 1..Len(order) |-> [v |-> order[i], pow |-> cands[order[i]].total]],
   base |-> SumSet([i \in 1..Len(order) |-> IF i <= g.maxValidatorCnt THEN cands[order[i]].total ELSE 0], 1..Len(order))]

\* the limiter's own order: power descending, address descending
LimBefore(rk, x, y) == x.pow > y.pow \/ (x.pow = y.pow /\ RankOf(rk, x.v) > RankOf(rk, y.v))
RECURSIVE LimSort(_, _)
LimSort(rk, S) ==
  IF S = {} THEN <<>>
  ELSE LET m == CHOOSE x \in S : \A y \in S \ {x} : LimBefore(rk, x, y) IN <<m>> \o LimSort(rk, S \ {m})

\* CheckLimit(delegatee v with current total power `total`, change `diff`): [ok, lim]
LimCheck(rk, lim, g, v, total, diff) ==
  IF lim.objs = <<>> THEN [ok |-> TRUE, lim |-> lim]
  ELSE
  LET n == Len(lim.objs)
      mx == g.maxValidatorCnt
      ix == {i \in 1..n : lim.objs[i].v = v}
      known == ix # {}
      ri == IF known THEN CHOOSE i \in ix : TRUE ELSE 0          \* 1-based position, 0: a new face
      pw == IF known THEN lim.objs[ri].pow ELSE total
      indiv == diff <= 0 \/ ((total + diff) * 100) \div (lim.base + diff) <= g.maxIndividualStakeRatio
      leaving == known /\ ri <= mx /\ diff < 0
      entering == (~known \/ ri > mx) /\ diff > 0
      up1 == IF leaving
               THEN IF n > mx /\ pw + diff < lim.objs[mx + 1].pow THEN lim.updated + pw ELSE lim.updated - diff
               ELSE lim.updated
      up2 == IF entering /\ n >= mx /\ mx >= 1 /\ pw + diff > lim.objs[mx].pow THEN up1 + lim.objs[mx].pow ELSE up1
      ratioOK == lim.base > 0 /\ (up2 * 100) \div lim.base <= g.maxUpdatableStakeRatio
  IN IF ~indiv \/ pw # total \/ ~ratioOK THEN [ok |-> FALSE, lim |-> lim]
     ELSE [ok |-> TRUE,
           lim |-> [lim EXCEPT !.updated = up2,
                               !.objs = IF known THEN LimSort(rk, {IF x.v = v THEN [x EXCEPT !.pow = @ + diff] ELSE x : x \in SeqSet(lim.objs)})
                                        ELSE LimSort(rk, SeqSet(lim.objs))]]

---------------------------------------------------------------------------
(* A deletion made by block execution (delegatee emptied or jailed, unbonding stake refunded, proposal closed) is    *)
(* applied to the mempool's scratch view at once (FinalityLedger.DelFinality deletes in both overlays); nothing     *)
(* else of block execution is visible there before the commit.                                                     *)
MirrorDel(s0, s1) ==
  LET goneD == DOMAIN s0.delegs \ DOMAIN s1.delegs
      goneF == {x.key : x \in SeqSet(s0.frozen)} \ {x.key : x \in SeqSet(s1.frozen)}
      goneP == DOMAIN s0.props \ DOMAIN s1.props
  IN [s1 EXCEPT !.mem.delegs = [d \in DOMAIN @ \ goneD |-> @[d]],
                !.mem.frozen = SelectSeq(@, LAMBDA x : x.key \notin goneF),
                !.mem.props = [p \in DOMAIN @ \ goneP |-> @[p]]]

---------------------------------------------------------------------------
(* BeginBlock *)

\* slash the stakes of every (known) accused delegatee, once per evidence, totals recomputed
RECURSIVE SlashDelegs(_, _, _)
SlashDelegs(delegs, evid, r) ==
  IF evid = <<>> THEN delegs
  ELSE LET v == Head(evid).v IN
       SlashDelegs(IF v \in DOMAIN delegs
                     THEN [delegs EXCEPT ![v] = Recount([@ EXCEPT !.stakes = SlashStakes(@, r)], v)]
                     ELSE delegs, Tail(evid), r)

\* issue power x rpp to the owner of every stake of delegatee d (as recorded at the look-back version)
RECURSIVE IssueStakes(_, _, _, _)
IssueStakes(rewards, stakes, rpp, H) ==
  IF stakes = <<>> THEN rewards
  ELSE LET st == Head(stakes)
           r0 == IF st.from \in DOMAIN rewards THEN rewards[st.from] ELSE NoReward
           amt == BMul(FromNat(st.pow), rpp)
           r1 == [r0 EXCEPT !.cum = BAdd(@, amt),
                            !.issued = IF r0.h < H THEN amt ELSE BAdd(@, amt),
                            !.h = H]
       IN IssueStakes(Put(rewards, st.from, r1), Tail(stakes), rpp, H)

RECURSIVE FreezeAll(_, _, _)
FreezeAll(frozen, stakes, refund) ==
  IF stakes = <<>> THEN frozen
  ELSE LET st == Head(stakes) IN
       FreezeAll(Append(frozen, [key |-> st.id, id |-> st.id, from |-> st.from, to |-> st.to, pow |-> st.pow, refund |-> refund]),
                 Tail(stakes), refund)

\* votes in order: a signed vote rewards, an absent one is recorded and may jail
RECURSIVE ProcessVotes(_, _, _)
ProcessVotes(s, votes, H) ==
  IF votes = <<>> THEN s
  ELSE LET vt == Head(votes)
           g == s.gov
           ver == IF H - 4 <= 0 THEN 1 ELSE H - 4
           src == IF ver \in DOMAIN s.hist THEN s.hist[ver] ELSE [x \in {} |-> 0]
           s1 == IF vt.signed
                   THEN IF vt.v \in DOMAIN src /\ src[vt.v].total = vt.pow
                          THEN [s EXCEPT !.rewards = IssueStakes(@, src[vt.v].stakes, g.rewardPerPower, H)]
                          ELSE s
                 ELSE IF vt.v \in DOMAIN s.delegs
                   THEN LET d == s.delegs[vt.v]
                            sh == H - 1
                            m == IF d.missed # <<>> /\ d.missed[Len(d.missed)] >= sh THEN d.missed ELSE Append(d.missed, sh)
                            lo == IF sh - g.signedBlocksWindow < 0 THEN 0 ELSE sh - g.signedBlocksWindow
                            jail == g.signedBlocksWindow - MissCount(m, lo, sh) < g.minSignedBlocks
                            \* marks before the window are dropped after counting - but only if there are at least two of
                            \* them (BlockMarker.CountInWindow: `preIdx > 0`)
                            stale == Cardinality({i \in 1..Len(m) : m[i] < lo})
                            kept == IF stale >= 2 THEN SubSeq(m, stale + 1, Len(m)) ELSE m
                        IN IF jail
                             THEN [s EXCEPT !.frozen = FreezeAll(@, d.stakes, H + g.lazyRewardBlocks), !.delegs = Drop(@, vt.v)]
                             ELSE [s EXCEPT !.delegs[vt.v].missed = kept]
                   ELSE s
       IN ProcessVotes(s1, Tail(votes), H)

BeginBlock(s, hdr) ==
  LET g == s.gov
      H == hdr.h
      s0 == [s EXCEPT !.h = H, !.inblock = TRUE, !.feeSum = <<>>, !.txCount = 0,
                      !.props = SlashVoter(@, hdr.evidence, g.slashRatio),
                      !.delegs = SlashDelegs(@, hdr.evidence, g.slashRatio),
                      \* candidates for the validator set: delegatees as COMMITTED whose own stake meets the minimum
                      !.vol.allDelegs = [d \in {x \in DOMAIN s.tree.delegs : s.tree.delegs[x].self >= MinPower(g)} |-> s.tree.delegs[d]],
                      !.vol.limiter = LimReset(s.rank, [d \in {x \in DOMAIN s.tree.delegs : s.tree.delegs[x].self >= MinPower(g)} |-> s.tree.delegs[d]],
                                               g, Len(s.vol.lastVals) >= 3),
                      !.mem.limiter = LimReset(s.rank, [d \in {x \in DOMAIN s.tree.delegs : s.tree.delegs[x].self >= MinPower(g)} |-> s.tree.delegs[d]],
                                               g, Len(s.vol.lastVals) >= 3),
                      !.proposer = hdr.proposer]
      s1 == IF hdr.votes = <<>> THEN s0 ELSE ProcessVotes(s0, hdr.votes, H)
  IN [s |-> MirrorDel(s, s1), resp |-> [events |-> <<>>]]

---------------------------------------------------------------------------
(* DeliverTx *)

SigValid(tx) == tx.auth = "valid"

MaxInt64 == <<807, 775, 854, 36, 372, 223, 9>>     \* 2^63 - 1

\* exec = FALSE is the mempool check: the signature is verified only when a block is executed
Common0(s, tx, exec) ==
  /\ tx.fromLen = 20 /\ tx.toLen = 20
  /\ BLt(tx.amount, Two255)
  /\ BLeq(tx.gas, MaxInt64)
  /\ tx.gasPrice = s.gov.gasPrice
  /\ ~BLt(Fee(tx, s.gov), BMul(s.gov.minTrxGas, s.gov.gasPrice))
  /\ (exec => SigValid(tx))

Common1(s, tx) ==
  /\ BLeq(BAdd(Fee(tx, s.gov), tx.amount), Bal(s, tx.from))
  /\ tx.nonce = Nonce(s, tx.from)

\* fee, nonce, gas used of a successful native transaction
PostRun(s, tx) ==
  LET a == Acct(s, tx.from) IN
  [s EXCEPT !.accts = Put(@, tx.from, [a EXCEPT !.bal = BSub(@, Fee(tx, s.gov)), !.nonce = @ + 1]),
            !.feeSum = BAdd(@, Fee(tx, s.gov)),
            !.delivered = @ \cup {tx.hash}]

Done(s, tx) == [s |-> PostRun(s, tx), resp |-> Resp(TRUE, tx, tx.gas)]

ExecTransfer(s, tx) == Done(AddBal(SubBal(s, tx.from, tx.amount), tx.to, tx.amount), tx)

ValidStaking(s, tx) ==
  LET g == s.gov
      pw == ToNat(BDivE18(tx.amount))
      has == tx.to \in DOMAIN s.delegs
  IN /\ IsMultE18(tx.amount)
     /\ BLeq(BDivE18(tx.amount), FromNat(1000000))           \* within the range of voting powers (bounded models)
     /\ IF tx.from = tx.to
          THEN pw + (IF has THEN s.delegs[tx.to].self ELSE 0) >= MinPower(g)
          ELSE /\ has
               /\ (ToNat(BDivE18(g.minDelegatorStake)) = 0 \/ ToNat(BDivE18(g.minDelegatorStake)) <= pw)
               /\ (s.delegs[tx.to].self * 100) \div (s.delegs[tx.to].total + pw) >= g.minSelfStakeRatio

\* the limiter is consulted last, and only while at least three validators are reported
LimitStaking(s, tx) ==
  IF Len(s.vol.lastVals) < 3 THEN [ok |-> TRUE, lim |-> s.vol.limiter]
  ELSE LimCheck(s.rank, s.vol.limiter, s.gov, tx.to, IF tx.to \in DOMAIN s.delegs THEN s.delegs[tx.to].total ELSE 0, ToNat(BDivE18(tx.amount)))

ExecStaking(s, tx) ==
  LET pw == ToNat(BDivE18(tx.amount))
      d0 == IF tx.to \in DOMAIN s.delegs THEN s.delegs[tx.to] ELSE NewDelegatee
      st == [id |-> tx.hash, from |-> tx.from, to |-> tx.to, pow |-> pw, start |-> s.h + 1, refund |-> 0]
      d1 == Recount([d0 EXCEPT !.stakes = Append(@, st)], tx.to)
  IN Done([SubBal(s, tx.from, tx.amount) EXCEPT !.delegs = Put(@, tx.to, d1)], tx)

StakeIdx(d, id) == {i \in 1..Len(d.stakes) : d.stakes[i].id = id}

ValidUnstaking(s, tx) ==
  /\ tx.to \in DOMAIN s.delegs
  /\ LET ix == StakeIdx(s.delegs[tx.to], tx.payload.stake) IN
       ix # {} /\ s.delegs[tx.to].stakes[CHOOSE i \in ix : TRUE].from = tx.from

LimitUnstaking(s, tx) ==
  IF Len(s.vol.lastVals) < 3 THEN [ok |-> TRUE, lim |-> s.vol.limiter]
  ELSE LET d == s.delegs[tx.to]
           st == d.stakes[CHOOSE i \in StakeIdx(d, tx.payload.stake) : TRUE]
       IN LimCheck(s.rank, s.vol.limiter, s.gov, tx.to, d.total, 0 - st.pow)

ExecUnstaking(s, tx) ==
  LET d0 == s.delegs[tx.to]
      i == CHOOSE j \in StakeIdx(d0, tx.payload.stake) : TRUE
      st == d0.stakes[i]
      refund == s.h + s.gov.lazyRewardBlocks
      rest == [j \in 1..(Len(d0.stakes) - 1) |-> IF j < i THEN d0.stakes[j] ELSE d0.stakes[j + 1]]
      d1 == Recount([d0 EXCEPT !.stakes = rest], tx.to)
      fz1 == FreezeAll(s.frozen, <<st>>, refund)
      \* the validator withdrew all of its own stake: everybody bonded to it is released as well
      forced == d1.self = 0
      fz2 == IF forced THEN FreezeAll(fz1, d1.stakes, refund) ELSE fz1
      d2 == IF forced THEN Recount([d1 EXCEPT !.stakes = <<>>], tx.to) ELSE d1
      s1 == [s EXCEPT !.frozen = fz2, !.delegs = IF d2.total = 0 THEN Drop(@, tx.to) ELSE Put(@, tx.to, d2)]
  IN Done(s1, tx)

ValidWithdraw(s, tx) ==
  /\ tx.amount = <<>>
  /\ tx.from \in DOMAIN s.rewards
  /\ BLeq(tx.payload.req, s.rewards[tx.from].cum)

ExecWithdraw(s, tx) ==
  LET r0 == s.rewards[tx.from]
      req == tx.payload.req
      r1 == [r0 EXCEPT !.cum = BSub(@, req), !.withdrawn = IF r0.h < s.h THEN req ELSE BAdd(@, req), !.h = s.h]
  IN Done(AddBal([s EXCEPT !.rewards[tx.from] = r1], tx.from, req), tx)

LastValNames(s) == {s.vol.lastVals[i].v : i \in 1..Len(s.vol.lastVals)}

GovParamsType == 257

ValidProposal(s, tx) ==
  LET pl == tx.payload  g == s.gov IN
  /\ tx.to = "zero"
  /\ tx.from \in LastValNames(s)
  /\ tx.hash \notin DOMAIN s.props
  /\ pl.start > s.h
  /\ pl.period >= g.minVotingPeriodBlocks /\ pl.period <= g.maxVotingPeriodBlocks
  \* the options of a parameter proposal (type 0x0101 = 257) must be parameter documents; other types carry any text
  /\ (pl.optType = GovParamsType => \A i \in 1..Len(pl.opts) : pl.opts[i].fields.valid)
  /\ pl.apply >= pl.start + pl.period + g.lazyApplyingBlocks
  /\ Len(pl.opts) >= 1

ExecProposal(s, tx) ==
  LET pl == tx.payload
      voters == [v \in LastValNames(s) |-> [pow |-> (CHOOSE x \in SeqSet(s.vol.lastVals) : x.v = v).pow, choice |-> -1]]
      total == SumSet([v \in DOMAIN voters |-> voters[v].pow], DOMAIN voters)
      p == [start |-> pl.start, end |-> pl.start + pl.period, apply |-> pl.apply, total |-> total, majority |-> (total * 2) \div 3,
            optType |-> pl.optType, voters |-> voters,
            opts |-> [i \in 1..Len(pl.opts) |-> [doc |-> pl.opts[i].doc, votes |-> 0]], major |-> [some |-> FALSE]]
      newDocs == {pl.opts[i].doc : i \in 1..Len(pl.opts)}
      docs == [d \in DOMAIN s.docs \cup newDocs |->
                 IF d \in DOMAIN s.docs THEN s.docs[d] ELSE pl.opts[CHOOSE i \in 1..Len(pl.opts) : pl.opts[i].doc = d]]
  IN Done([s EXCEPT !.props = Put(@, tx.hash, p), !.docs = docs], tx)

ValidVoting(s, tx) ==
  /\ tx.to = "zero"
  /\ tx.payload.prop \in DOMAIN s.props
  /\ LET p == s.props[tx.payload.prop] IN
       /\ tx.from \in DOMAIN p.voters
       /\ tx.payload.choice >= 0 /\ tx.payload.choice < Len(p.opts)
       /\ s.h >= p.start /\ s.h <= p.end

ExecVoting(s, tx) ==
  LET id == tx.payload.prop
      p == s.props[id]
      w == p.voters[tx.from]
      c == tx.payload.choice
      opts == [i \in 1..Len(p.opts) |->
                 [p.opts[i] EXCEPT !.votes = @ - (IF w.choice = i - 1 THEN w.pow ELSE 0) + (IF c = i - 1 THEN w.pow ELSE 0)]]
  IN Done([s EXCEPT !.props[id] = [p EXCEPT !.voters[tx.from].choice = c, !.opts = opts]], tx)

ValidSetDoc(s, tx) == tx.payload.nameLen <= 2048 /\ tx.payload.urlLen <= 2048
ExecSetDoc(s, tx) ==
  Done([s EXCEPT !.accts = Put(@, tx.from, [Acct(s, tx.from) EXCEPT !.name = tx.payload.name, !.url = tx.payload.url])], tx)

Execute(s, tx, exec) ==
  IF tx.type = "garbage" \/ tx.from \notin DOMAIN s.accts THEN Fail(s, tx)
  ELSE
    \* the (empty) receiver account is created before validation
    LET s0 == IF tx.to \in DOMAIN s.accts THEN s ELSE [s EXCEPT !.accts = Put(@, tx.to, EmptyAcct)] IN
    IF ~Common0(s0, tx, exec) \/ ~Common1(s0, tx) THEN Fail(s0, tx)
    ELSE CASE tx.type = "transfer"  -> ExecTransfer(s0, tx)
           [] tx.type = "staking"   -> IF ValidStaking(s0, tx)
                                         THEN LET lr == LimitStaking(s0, tx) IN
                                              IF lr.ok THEN ExecStaking([s0 EXCEPT !.vol.limiter = lr.lim], tx) ELSE Fail(s0, tx)
                                         ELSE Fail(s0, tx)
           [] tx.type = "unstaking" -> IF ValidUnstaking(s0, tx)
                                         THEN LET lr == LimitUnstaking(s0, tx) IN
                                              IF lr.ok THEN ExecUnstaking([s0 EXCEPT !.vol.limiter = lr.lim], tx) ELSE Fail(s0, tx)
                                         ELSE Fail(s0, tx)
           [] tx.type = "withdraw"  -> IF ValidWithdraw(s0, tx) THEN ExecWithdraw(s0, tx) ELSE Fail(s0, tx)
           [] tx.type = "proposal"  -> IF ValidProposal(s0, tx) THEN ExecProposal(s0, tx) ELSE Fail(s0, tx)
           [] tx.type = "voting"    -> IF ValidVoting(s0, tx) THEN ExecVoting(s0, tx) ELSE Fail(s0, tx)
           [] tx.type = "setdoc"    -> IF ValidSetDoc(s0, tx) THEN ExecSetDoc(s0, tx) ELSE Fail(s0, tx)
           [] OTHER -> Fail(s0, tx)

DeliverTx(s, tx) == LET r == Execute(s, tx, TRUE) IN [r EXCEPT !.s = MirrorDel(s, r.s)]

---------------------------------------------------------------------------
(* the mempool's scratch view (CheckTx): the state as COMMITTED plus the effects of the transactions checked since,  *)
(* with its own stake limiter; the parameters and the reported validator set are the live ones.  Nothing of it is     *)
(* visible to block execution and a commit discards it (C06).                                                       *)

MemOf(s) == [accts |-> s.accts, delegs |-> s.delegs, frozen |-> s.frozen, rewards |-> s.rewards, props |-> s.props, limiter |-> s.vol.limiter]

MemView(s) ==
  [s EXCEPT !.accts = s.mem.accts, !.delegs = s.mem.delegs, !.frozen = s.mem.frozen, !.rewards = s.mem.rewards, !.props = s.mem.props,
            !.vol.limiter = s.mem.limiter,
            !.h = s.lastH + 1]       \* a checked transaction is validated for the block expected to include it

CheckTx(s, tx) ==
  LET r == Execute(MemView(s), tx, FALSE) IN [s |-> [s EXCEPT !.mem = MemOf(r.s)], resp |-> r.resp]

\* a re-check (the request the mempool sends after a commit for every transaction still waiting) is answered without
\* looking at the transaction
Recheck(s, tx) == [s |-> s, resp |-> Resp(TRUE, tx, <<>>)]

---------------------------------------------------------------------------
(* EndBlock *)

\* options in descending order of votes, ties in their original order (what sort.Sort does for so few elements)
RECURSIVE SortOpts(_)
SortOpts(os) ==
  IF os = <<>> THEN <<>>
  ELSE LET b == CHOOSE i \in 1..Len(os) : (\A j \in 1..Len(os) : os[j].votes <= os[i].votes) /\ (\A j \in 1..(i - 1) : os[j].votes < os[i].votes)
       IN <<os[b]>> \o SortOpts([j \in 1..(Len(os) - 1) |-> IF j < b THEN os[j] ELSE os[j + 1]])

\* close the proposals whose window ended, as COMMITTED by the previous block
RECURSIVE FreezeProps(_, _)
FreezeProps(s, ids) ==
  IF ids = {} THEN s
  ELSE LET id == CHOOSE x \in ids : TRUE
           p == s.tree.props[id]
           best == MaxVotes(p)
           adopted == best >= p.majority
           top == CHOOSE i \in 1..Len(p.opts) : p.opts[i].votes = best /\ \A j \in 1..(i - 1) : p.opts[j].votes < best
           s1 == [s EXCEPT !.props = Drop(@, id)]
           s2 == IF adopted THEN [s1 EXCEPT !.fprops = Put(@, id, [p EXCEPT !.major = [some |-> TRUE, v |-> p.opts[top]], !.opts = SortOpts(p.opts)])] ELSE s1
       IN FreezeProps(s2, ids \ {id})

\* apply adopted proposals whose applying height is reached, as COMMITTED by the previous block
RECURSIVE ApplyProps(_, _)
ApplyProps(s, ids) ==
  IF ids = {} THEN s
  ELSE LET id == CHOOSE x \in ids : TRUE
           p == s.tree.fprops[id]
           new == Merge(s.gov, s.docs[p.major.v.doc].fields.f)
       IN IF p.optType # GovParamsType
          THEN ApplyProps([s EXCEPT !.fprops = Drop(@, id)], ids \ {id})      \* nothing on chain to apply
          ELSE ApplyProps([s EXCEPT !.fprops = Drop(@, id), !.govPending = [some |-> TRUE, v |-> new], !.govLedger = [some |-> TRUE, v |-> new]],
                          ids \ {id})

\* the parameter sets the end of this block may leave pending: when several proposals are applied in one block each
\* merge starts from the ACTIVE parameters, so the last one in the ledger's key order (not visible here) wins
ApplyCandidates(s) ==
  {Merge(s.gov, s.docs[s.tree.fprops[id].major.v.doc].fields.f) :
     id \in {x \in DOMAIN s.tree.fprops : s.tree.fprops[x].apply <= s.h /\ x \in DOMAIN s.fprops /\ s.tree.fprops[x].optType = GovParamsType}}

\* refund the unbonding stakes that matured, as COMMITTED by the previous block
RECURSIVE Refund(_, _)
Refund(s, keys) ==
  IF keys = {} THEN s
  ELSE LET k == CHOOSE x \in keys : TRUE
           st == CHOOSE x \in SeqSet(s.tree.frozen) : x.key = k
           s1 == AddBal(s, st.from, PowerAmount(st.pow))
       IN Refund([s1 EXCEPT !.frozen = SelectSeq(@, LAMBDA x : x.key # k)], keys \ {k})

\* validator updates: merge of the previously reported set and the new top selection by address
ValUpdates(rk, old, new, delegs) ==
  LET oldNames == {old[i].v : i \in 1..Len(old)}
      oldPow(v) == (CHOOSE x \in SeqSet(old) : x.v = v).pow
      changed == {v \in oldNames \cup new : v \notin new \/ v \notin oldNames \/ oldPow(v) # delegs[v].total}
      order == AscSeq(rk, changed)
  IN [i \in 1..Len(order) |-> [v |-> order[i], pow |-> IF order[i] \in new THEN delegs[order[i]].total ELSE 0, powNeg |-> FALSE]]

EndBlock(s) ==
  LET h == s.h
      g == s.gov
      s1 == FreezeProps(s, {id \in DOMAIN s.tree.props : s.tree.props[id].end < h /\ id \in DOMAIN s.props})
      s2 == ApplyProps(s1, {id \in DOMAIN s.tree.fprops : s.tree.fprops[id].apply <= h /\ id \in DOMAIN s1.fprops})
      s3 == IF s.proposer # "none" /\ s.feeSum # <<>> THEN AddBal(s2, s.proposer, s.feeSum) ELSE s2
      s4 == Refund(s3, {x.key : x \in {y \in SeqSet(s.tree.frozen) : y.refund <= h /\ \E z \in SeqSet(s3.frozen) : z.key = y.key}})
      cands == s.vol.allDelegs
      new == TopN(s.rank, cands, DOMAIN cands, g.maxValidatorCnt)
      ups == ValUpdates(s.rank, s.vol.lastVals, new, cands)
      newSeq == PowerSeq(s.rank, cands, new)     \* the reported set is kept in power order
      s5 == [s4 EXCEPT !.vol.lastVals = [i \in 1..Len(newSeq) |-> [v |-> newSeq[i], pow |-> cands[newSeq[i]].total]],
                       !.vol.limiter.on = Len(newSeq) >= 3]
  IN [s |-> MirrorDel(s, s5), resp |-> [valUpdates |-> ups, events |-> <<>>]]

---------------------------------------------------------------------------
(* Commit, CheckTx, Restart *)

Commit(s) ==
  LET s1 == [s EXCEPT !.tree = [delegs |-> s.delegs, frozen |-> s.frozen, props |-> s.props, fprops |-> s.fprops],
                      !.hist = Put(@, s.h, s.delegs),
                      !.prevGov = s.gov,     \* the parameters that were in force during the block just committed
                      !.gov = IF s.govPending.some THEN s.govPending.v ELSE @,
                      !.govPending = [some |-> FALSE],
                      !.lastH = s.h, !.inblock = FALSE, !.feeSum = <<>>, !.txCount = 0, !.proposer = "none",
                      !.mem = [MemOf(s) EXCEPT !.limiter = s.mem.limiter]]    \* the scratch view is discarded
  IN [s |-> s1, resp |-> [hash |-> "h"]]


\* a restarted process: the overlay caches are gone (they equal the committed trees at a block boundary),
\* the volatile validator set is rebuilt from the delegatee ledger of the previous version with the parameters
\* that were in force during the last block (what the last EndBlock used)
Restart(s) ==
  LET prevDelegs == IF s.lastH - 1 \in DOMAIN s.hist /\ s.lastH > 1 THEN s.hist[s.lastH - 1] ELSE [x \in {} |-> 0]
      cands == [d \in {x \in DOMAIN prevDelegs : prevDelegs[x].self >= MinPower(s.prevGov)} |-> prevDelegs[d]]
      new == PowerSeq(s.rank, cands, TopN(s.rank, cands, DOMAIN cands, s.prevGov.maxValidatorCnt))
  IN [s |-> [s EXCEPT !.vol.lastVals = [i \in 1..Len(new) |-> [v |-> new[i], pow |-> cands[new[i]].total]],
                      !.vol.allDelegs = cands,
                      !.vol.limiter = [NoLimiter EXCEPT !.on = Len(new) >= 3],
                      !.mem = [MemOf(s) EXCEPT !.limiter = [NoLimiter EXCEPT !.on = Len(new) >= 3]]],
      resp |-> [h |-> s.lastH, hash |-> "h"]]
=============================================================================
