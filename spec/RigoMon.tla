------------------------------- MODULE RigoMon -------------------------------
(***************************************************************************)
(* History monitors folded over observed steps, and the assembly of all    *)
(* property clauses for one step.  Parameterised over (pre, mon) so that   *)
(* the same definitions serve the trace specification (RigoTrace.tla,      *)
(* values recorded from the real code) and the bounded models (MC_Rigo,    *)
(* values produced by RigoCore.tla).                                       *)
(***************************************************************************)
EXTENDS RigoProps

EmptyFun == [x \in {} |-> 0]

InitMon ==
  [gtotal |-> <<>>, minted |-> <<>>, burnedPower |-> 0, lostFees |-> <<>>, evmBurn |-> <<>>,
   cons |-> EmptyFun, delivered |-> {}, born |-> EmptyFun, gone |-> {}, refundedIds |-> {}, frozenC |-> {},
   snaps |-> EmptyFun, views |-> EmptyFun, genesisDelegs |-> EmptyFun, propsC |-> EmptyFun,
   docs |-> EmptyFun, answers |-> EmptyFun, proposer |-> "none", trace |-> 0, dead |-> FALSE,
   pending |-> <<>>, broken |-> FALSE, lastHash |-> "tnil"]

Ext(f, k, v) == [x \in DOMAIN f \cup {k} |-> IF x = k THEN v ELSE f[x]]
ExtAll(f, ks, val(_)) == [x \in DOMAIN f \cup ks |-> IF x \in ks THEN val(x) ELSE f[x]]

\* stakes of a projection as a function  <<id, to>> -> [from, pow]
BornOf(s) == LET S == AllStakes(s) IN [k \in {StakeKey(st) : st \in S} |-> LET st == CHOOSE x \in S : StakeKey(x) = k IN [from |-> st.from, pow |-> st.pow]]

GenesisMon(e, traceNo) ==
  LET s == e.post IN
  [InitMon EXCEPT !.gtotal = Holdings(s),
                  !.cons = [v \in {e.validators[i].v : i \in 1..Len(e.validators)} |->
                               (CHOOSE x \in SeqSet(e.validators) : x.v = v).pow],
                  !.born = BornOf(s),
                  !.genesisDelegs = s.delegs,
                  !.lastHash = e.apphash,
                  !.trace = traceNo]

\* option documents announced by a proposal transaction (valid ones)
DocsOf(e) ==
  IF IsTx(e) /\ e.tx.type = "proposal"
  THEN LET os == e.tx.payload.opts
           good == {i \in 1..Len(os) : os[i].fields.valid}
       IN [d \in {os[i].doc : i \in good} |-> LET i == CHOOSE j \in good : os[j].doc = d IN os[i].fields.f]
  ELSE EmptyFun

NextMon(e, pre, post, mon) ==
  LET stepOK == ~\E c \in C02(e, pre, post, mon) : TRUE
      m0 == [mon EXCEPT !.minted = BAdd(@, MintedBy(e)),
                        !.burnedPower = @ + BurnedBy(e, pre, post),
                        !.lostFees = BAdd(@, LostBy(e, pre, mon)),
                        !.evmBurn = BAdd(@, EvmBurnBy(e)),
                        !.pending = PendingAfter(e, post, mon),
                        \* once a step broke conservation the cumulative equation is reported no more (one report per cause)
                        !.broken = @ \/ ~stepOK]
  IN
  CASE e.ev = "BeginBlock" ->
         [m0 EXCEPT !.proposer = e.proposer]
    [] e.ev = "DeliverTx" ->
         LET m1 == IF IsTx(e) /\ e.resp.ok THEN [m0 EXCEPT !.delivered = @ \cup {e.tx.hash}] ELSE m0
             m2 == IF IsTx(e) /\ e.resp.ok /\ e.tx.type = "staking"
                     THEN [m1 EXCEPT !.born = Ext(@, <<e.tx.hash, e.tx.to>>, [from |-> e.tx.from, pow |-> ToNat(BDivE18(e.tx.amount))])]
                     ELSE m1
             ds == DocsOf(e)
         IN [m2 EXCEPT !.docs = ExtAll(@, DOMAIN ds, LAMBDA d : ds[d])]
    [] e.ev = "EndBlock" ->
         LET left == {s \in SeqSet(pre.frozen) : ~\E t \in SeqSet(post.frozen) : t.key = s.key} IN
         [m0 EXCEPT !.cons = IF \E c \in C10(e, pre, post, mon) : TRUE
                              \* reported once; continue from the set the application itself believes it reported
                              THEN [v \in {post.vol.lastVals[i].v : i \in 1..Len(post.vol.lastVals)} |->
                                      (CHOOSE x \in SeqSet(post.vol.lastVals) : x.v = v).pow]
                              ELSE Fold(@, e.resp.valUpdates),
                    !.views = Ext(@, post.h, post),
                    !.refundedIds = @ \cup {s.id : s \in left}]
    [] e.ev = "Commit" ->
         [m0 EXCEPT !.snaps = IF "committed" \in DOMAIN e THEN Ext(@, e.committed.h, e.committed) ELSE @,
                    !.frozenC = {s.key : s \in SeqSet(post.frozen)},
                    !.propsC = post.props,
                    !.lastHash = e.resp.hash,
                    !.proposer = "none"]
    [] OTHER -> m0

QueryMon(e, mon) ==
  IF e.ev = "Query" /\ e.path \in Judged /\ e.panic = ""
  THEN LET hh == IF e.qh = 0 THEN e.lastH ELSE e.qh IN
       IF hh >= 1 /\ hh <= e.lastH THEN [mon EXCEPT !.answers = Ext(@, <<e.path, e.key, hh>>, e.resp.raw)] ELSE mon
  ELSE mon

\* every power in the projection is within the range the harness can represent
Sane(s) ==
  /\ \A d \in DOMAIN s.delegs : /\ s.delegs[d].self >= 0 /\ s.delegs[d].total >= 0
                                  /\ \A i \in 1..Len(s.delegs[d].stakes) : s.delegs[d].stakes[i].pow >= 0
  /\ \A i \in 1..Len(s.frozen) : s.frozen[i].pow >= 0 /\ s.frozen[i].refund >= 0
  /\ \A a \in DOMAIN s.accts : s.accts[a].nonce >= 0

StateEvents == {"BeginBlock", "DeliverTx", "EndBlock", "Commit", "CheckTx", "Restart"}

\* Antecedent witnesses: which situations the property clauses speak about did this step exhibit?  (Vacuity control:
\* the checks require the situations their property is about to occur in what they explored.)
Witness(e, pre, post) ==
  IF e.ev = "BeginBlock" THEN
      LET named == {e.evidence[i].v : i \in 1..Len(e.evidence)} IN
      (IF named \cap DOMAIN pre.delegs # {} THEN {"evidence against a bonded validator"} ELSE {})
      \cup (IF named \ DOMAIN pre.delegs # {} THEN {"evidence against an unknown / unbonded address"} ELSE {})
      \cup (IF Len(e.evidence) >= 2 THEN {"several pieces of evidence in one block"} ELSE {})
      \cup (IF \E p \in DOMAIN pre.props : named \cap DOMAIN pre.props[p].voters # {} THEN {"evidence against a voter of an open proposal"} ELSE {})
      \cup (IF \E i \in 1..Len(e.votes) : ~e.votes[i].signed THEN {"absent validator"} ELSE {})
      \cup (IF \E d \in DOMAIN pre.delegs : d \notin DOMAIN post.delegs THEN {"validator jailed for downtime (all stake unbonding)"} ELSE {})
      \cup (IF \E d \in DOMAIN pre.delegs \cap DOMAIN post.delegs : Len(post.delegs[d].stakes) < Len(pre.delegs[d].stakes)
            THEN {"slashing forfeits a stake too small to be cut"} ELSE {})
      \cup (IF post.rewards # pre.rewards THEN {"rewards issued"} ELSE {})
  ELSE IF e.ev = "DeliverTx" /\ IsTx(e) THEN
      LET tx == e.tx IN
      {tx.type \o (IF e.resp.ok THEN " transaction succeeds" ELSE " transaction fails")}
      \cup (IF e.resp.ok /\ tx.type = "unstaking" /\ tx.to \in DOMAIN pre.delegs /\ tx.to \notin DOMAIN post.delegs
                /\ Len(pre.delegs[tx.to].stakes) >= 2 THEN {"a validator's own unstaking releases its delegators"} ELSE {})
      \cup (IF e.resp.ok /\ tx.type = "staking" /\ tx.to \notin DOMAIN pre.delegs THEN {"a new delegatee is created"} ELSE {})
      \cup (IF e.resp.ok /\ tx.type = "staking" /\ tx.to # tx.from THEN {"delegation to another account"} ELSE {})
      \cup (IF e.resp.ok /\ tx.type = "voting" /\ tx.payload.prop \in DOMAIN pre.props
                /\ tx.from \in DOMAIN pre.props[tx.payload.prop].voters /\ pre.props[tx.payload.prop].voters[tx.from].choice >= 0
            THEN {"re-vote"} ELSE {})
      \cup (IF e.resp.ok /\ tx.type = "transfer" /\ tx.to \notin LiveAccts(pre) THEN {"transfer creates an account"} ELSE {})
      \cup (IF EvmTx(pre, tx) THEN {IF e.resp.ok THEN "contract execution succeeds" ELSE "contract execution fails"} ELSE {})
      \cup (IF ~e.resp.ok /\ pre.vol.limiter.on /\ tx.type \in {"staking", "unstaking"} THEN {"staking change refused while the stake limiter is active"} ELSE {})
  ELSE IF e.ev = "EndBlock" THEN
      (IF \E x \in SeqSet(pre.frozen) : ~\E y \in SeqSet(post.frozen) : y.key = x.key THEN {"matured unbonding stake refunded"} ELSE {})
      \cup (IF \E id \in DOMAIN post.fprops : id \notin DOMAIN pre.fprops THEN {"proposal adopted"} ELSE {})
      \cup (IF \E id \in DOMAIN pre.props : id \notin DOMAIN post.props /\ id \notin DOMAIN post.fprops THEN {"proposal dropped for lack of majority"} ELSE {})
      \cup (IF post.govPending.some /\ ~pre.govPending.some THEN {"adopted parameters applied"} ELSE {})
      \cup (IF e.resp.valUpdates # <<>> THEN {"validator set changes"} ELSE {})
      \cup (IF \E i \in 1..Len(e.resp.valUpdates) : e.resp.valUpdates[i].pow = 0 THEN {"validator removed from the set"} ELSE {})
      \cup (IF pre.feeSum # <<>> THEN {"block with fees"} ELSE {})
  ELSE IF e.ev = "Commit" THEN
      (IF post.gov # pre.gov THEN {"parameters switch at commit"} ELSE {})
  ELSE IF e.ev = "CheckTx" THEN {IF e.resp.ok THEN "mempool check accepts" ELSE "mempool check refuses"}
  ELSE IF e.ev = "Restart" THEN {"process restart"}
  ELSE {}

\* all clauses of all properties violated by one observed step
Checks(e, pre, post, mon) ==
  C02(e, pre, post, mon) \cup C03(e, pre, post) \cup C04(e, pre, post, mon) \cup C05(e, pre, post)
  \cup C10(e, pre, post, mon) \cup C11(e, pre, post, mon)
  \cup C12(e, pre, post, mon) \cup C13(e, pre, post, mon) \cup C14(e, pre, post, mon)
  \cup C15(e, pre, post, mon) \cup C16(e, pre, post, mon) \cup C19Commit(e, pre) \cup C19Again(e, mon) \cup C19Gov(e, post) \cup C07(e, pre, post, mon) \cup C06(e, pre, post) \cup C17(e, pre, post) \cup C17Bridge(e) \cup C03Ignored(e, pre, post)
=============================================================================
