------------------------------- MODULE Ledger -------------------------------
(***************************************************************************)
(* One versioned ledger of rigo-go (ledger/finality_ledger.go +            *)
(* simple_ledger.go): a committed key-value tree with immutable version    *)
(* history, a consensus overlay ("finality" items) and a mempool overlay   *)
(* ("cached" items).  This is property C18.                                *)
(*                                                                         *)
(* State is abstract: per key and per overlay a pending write (fPend /     *)
(* cPend) and a tombstone counter (fTomb / cTomb; the code keeps a list    *)
(* of removed keys in which a key can occur more than once and CancelDel   *)
(* removes one occurrence).  The read caches (gotItems) of the code are    *)
(* not state here: they never change what a read returns as long as every  *)
(* in-place mutation is followed by a Set, which is how all controllers    *)
(* use the ledger; LedgerImpl.tla models them explicitly and is checked to *)
(* refine this module.                                                     *)
(*                                                                         *)
(* TombFirst = TRUE selects the as-built read order of getFinality()/get() *)
(* at the pinned commit (tombstone list consulted before the pending       *)
(* write), which is defect D1: a key deleted and re-created inside one     *)
(* commit interval reads as absent.  TombFirst = FALSE is the repaired     *)
(* order.                                                                  *)
(***************************************************************************)
EXTENDS Integers, Sequences, FiniteSets, TLC

CONSTANTS Key,        \* set of keys
          Val,        \* set of values (positive integers)
          TombFirst   \* BOOLEAN, see above

None == 0             \* "absent" / "not found"

VARIABLES
  tree,      \* [Key -> Val \cup {None}]  last committed content (working tree)
  versions,  \* Seq([Key -> Val \cup {None}]) versions[n] = content committed as version n
  fPend,     \* [Key -> Val \cup {None}]  consensus overlay: pending write
  fTomb,     \* [Key -> Nat]              consensus overlay: tombstone count
  cPend,     \* mempool overlay: pending write
  cTomb,     \* mempool overlay: tombstone count
  ret,       \* [op, k, v, out] the last call and what it returned
  lastW,     \* history: [Key -> Int] last consensus-overlay write since commit:
             \*   -1 none, 0 deleted, v>0 set to v.  A Cancel* withdraws the pending write (CancelSet*) or one pending
             \*   delete (CancelDel*) of the key: what the overlay still holds for it is what counts afterwards
  cLastW     \* same for the mempool overlay

vars == <<tree, versions, fPend, fTomb, cPend, cTomb, ret, lastW, cLastW>>

Empty    == [k \in Key |-> None]
NoTomb   == [k \in Key |-> 0]
NoWrite  == [k \in Key |-> -1]

View(pend, tomb, k) ==
  IF TombFirst /\ tomb[k] > 0 THEN None
  ELSE IF pend[k] # None THEN pend[k]
  ELSE IF tomb[k] > 0 THEN None
  ELSE tree[k]

FView(k) == View(fPend, fTomb, k)
CView(k) == View(cPend, cTomb, k)

\* what Commit persists for key k: removals first, then the pending writes
Committable(k) ==
  IF fPend[k] # None THEN fPend[k] ELSE IF fTomb[k] > 0 THEN None ELSE tree[k]

Init ==
  /\ tree = Empty /\ versions = <<>>
  /\ fPend = Empty /\ fTomb = NoTomb /\ cPend = Empty /\ cTomb = NoTomb
  /\ ret = [op |-> "Init", k |-> None, v |-> None, out |-> None]
  /\ lastW = NoWrite /\ cLastW = NoWrite

R(op, k, v, out) == [op |-> op, k |-> k, v |-> v, out |-> out]

---------------------------------------------------------------------------
(* consensus overlay *)

SetFinality(k, v) ==
  /\ fPend' = [fPend EXCEPT ![k] = v]
  /\ lastW' = [lastW EXCEPT ![k] = IF @ = -2 THEN -2 ELSE v]
  /\ ret' = R("SetFinality", k, v, None)
  /\ UNCHANGED <<tree, versions, fTomb, cPend, cTomb, cLastW>>

GetFinality(k) ==
  /\ ret' = R("GetFinality", k, None, FView(k))
  /\ UNCHANGED <<tree, versions, fPend, fTomb, cPend, cTomb, lastW, cLastW>>

\* DelFinality first deletes the key from the mempool overlay (if the mempool
\* view has it), then from the consensus overlay (if the consensus view has it).
DelFinality(k) ==
  /\ IF CView(k) # None
       THEN /\ cPend' = [cPend EXCEPT ![k] = None]
            /\ cTomb' = [cTomb EXCEPT ![k] = @ + 1]
            /\ cLastW' = [cLastW EXCEPT ![k] = IF @ = -2 THEN -2 ELSE 0]
       ELSE UNCHANGED <<cPend, cTomb, cLastW>>
  /\ IF FView(k) # None
       THEN /\ fPend' = [fPend EXCEPT ![k] = None]
            /\ fTomb' = [fTomb EXCEPT ![k] = @ + 1]
            /\ lastW' = [lastW EXCEPT ![k] = IF @ = -2 THEN -2 ELSE 0]
       ELSE UNCHANGED <<fPend, fTomb, lastW>>
  /\ ret' = R("DelFinality", k, None, FView(k))
  /\ UNCHANGED <<tree, versions>>

CancelSetFinality(k) ==
  /\ fPend' = [fPend EXCEPT ![k] = None]
  /\ lastW' = [lastW EXCEPT ![k] = IF fTomb[k] > 0 THEN 0 ELSE -1]
  /\ ret' = R("CancelSetFinality", k, None, None)
  /\ UNCHANGED <<tree, versions, fTomb, cPend, cTomb, cLastW>>

CancelDelFinality(k) ==
  /\ fTomb' = [fTomb EXCEPT ![k] = IF @ > 0 THEN @ - 1 ELSE 0]
  /\ lastW' = [lastW EXCEPT ![k] = IF fPend[k] # None THEN fPend[k] ELSE IF fTomb[k] > 1 THEN 0 ELSE -1]
  /\ ret' = R("CancelDelFinality", k, None, None)
  /\ UNCHANGED <<tree, versions, fPend, cPend, cTomb, cLastW>>

---------------------------------------------------------------------------
(* mempool overlay *)

Set(k, v) ==
  /\ cPend' = [cPend EXCEPT ![k] = v]
  /\ cLastW' = [cLastW EXCEPT ![k] = IF @ = -2 THEN -2 ELSE v]
  /\ ret' = R("Set", k, v, None)
  /\ UNCHANGED <<tree, versions, fPend, fTomb, cTomb, lastW>>

Get(k) ==
  /\ ret' = R("Get", k, None, CView(k))
  /\ UNCHANGED <<tree, versions, fPend, fTomb, cPend, cTomb, lastW, cLastW>>

Del(k) ==
  /\ IF CView(k) # None
       THEN /\ cPend' = [cPend EXCEPT ![k] = None]
            /\ cTomb' = [cTomb EXCEPT ![k] = @ + 1]
            /\ cLastW' = [cLastW EXCEPT ![k] = IF @ = -2 THEN -2 ELSE 0]
       ELSE UNCHANGED <<cPend, cTomb, cLastW>>
  /\ ret' = R("Del", k, None, CView(k))
  /\ UNCHANGED <<tree, versions, fPend, fTomb, lastW>>

CancelSet(k) ==
  /\ cPend' = [cPend EXCEPT ![k] = None]
  /\ cLastW' = [cLastW EXCEPT ![k] = IF cTomb[k] > 0 THEN 0 ELSE -1]
  /\ ret' = R("CancelSet", k, None, None)
  /\ UNCHANGED <<tree, versions, fPend, fTomb, cTomb, lastW>>

CancelDel(k) ==
  /\ cTomb' = [cTomb EXCEPT ![k] = IF @ > 0 THEN @ - 1 ELSE 0]
  /\ cLastW' = [cLastW EXCEPT ![k] = IF cPend[k] # None THEN cPend[k] ELSE IF cTomb[k] > 1 THEN 0 ELSE -1]
  /\ ret' = R("CancelDel", k, None, None)
  /\ UNCHANGED <<tree, versions, fPend, fTomb, cPend, lastW>>

---------------------------------------------------------------------------
(* committed tree *)

Read(k) ==
  /\ ret' = R("Read", k, None, tree[k])
  /\ UNCHANGED <<tree, versions, fPend, fTomb, cPend, cTomb, lastW, cLastW>>

\* IterateReadAllItems / IterateReadAllFinalityItems: the committed content
IterateAll ==
  /\ ret' = R("IterateAll", None, None, tree)
  /\ UNCHANGED <<tree, versions, fPend, fTomb, cPend, cTomb, lastW, cLastW>>

Commit ==
  LET new == [k \in Key |-> Committable(k)] IN
  /\ tree' = new
  /\ versions' = Append(versions, new)
  /\ fPend' = Empty /\ fTomb' = NoTomb /\ cPend' = Empty /\ cTomb' = NoTomb
  /\ lastW' = NoWrite /\ cLastW' = NoWrite
  /\ ret' = R("Commit", None, None, Len(versions) + 1)

\* ImmutableLedgerAt(n).Read(k); n beyond the latest version is an error (out = -1)
ReadAt(n, k) ==
  /\ ret' = R("ReadAt", k, n,
               IF n \in 1..Len(versions) THEN versions[n][k]
               ELSE IF n = 0   \* not a version: the store resolves 0 to "latest" (the code's behaviour; not part of C18)
                      THEN (IF versions = <<>> THEN None ELSE versions[Len(versions)][k])
                      ELSE -1)
  /\ UNCHANGED <<tree, versions, fPend, fTomb, cPend, cTomb, lastW, cLastW>>

\* process restart: both overlays are lost, the tree is the last saved version
Reopen ==
  /\ tree' = IF versions = <<>> THEN Empty ELSE versions[Len(versions)]
  /\ fPend' = Empty /\ fTomb' = NoTomb /\ cPend' = Empty /\ cTomb' = NoTomb
  /\ lastW' = NoWrite /\ cLastW' = NoWrite
  /\ ret' = R("Reopen", None, None, Len(versions))
  /\ UNCHANGED versions

Next ==
  \/ \E k \in Key, v \in Val : SetFinality(k, v) \/ Set(k, v)
  \/ \E k \in Key : \/ GetFinality(k) \/ DelFinality(k) \/ CancelSetFinality(k) \/ CancelDelFinality(k)
                    \/ Get(k) \/ Del(k) \/ CancelSet(k) \/ CancelDel(k) \/ Read(k)
  \/ IterateAll \/ Commit \/ Reopen
  \/ \E n \in 0..(Len(versions) + 1), k \in Key : ReadAt(n, k)

Spec == Init /\ [][Next]_vars

---------------------------------------------------------------------------
(* Properties (C18).  They are stated over the history variables lastW /   *)
(* cLastW, i.e. independently of the definition of View.                   *)

ChkOps == {"Set", "Get", "Del", "CancelSet", "CancelDel"}

Expected(w, k) == IF w[k] >= 0 THEN w[k] ELSE tree[k]

\* reads through an overlay see that overlay's own latest write or delete,
\* including re-creation after deletion, on top of the last commit
ReadYourWrites ==
  /\ ret.op \in {"GetFinality", "DelFinality"} /\ lastW[ret.k] # -2 /\ ret.op = "GetFinality"
       => ret.out = Expected(lastW, ret.k)
  /\ ret.op = "Get" /\ cLastW[ret.k] # -2 => ret.out = Expected(cLastW, ret.k)
  /\ ret.op = "Read" => ret.out = tree[ret.k]

\* mempool-overlay operations are never visible to consensus reads or commits
CheckInvisibleToConsensus ==
  [][ret'.op \in ChkOps => UNCHANGED <<tree, versions, fPend, fTomb, lastW>>]_vars

\* a commit persists exactly the consensus overlay's net effect as the next
\* version and discards the mempool overlay
CommitExact ==
  [][ret'.op = "Commit" =>
        /\ Len(versions') = Len(versions) + 1
        /\ ret'.out = Len(versions')
        /\ \A k \in Key : lastW[k] # -2 => versions'[Len(versions')][k] = Expected(lastW, k)
        /\ cPend' = Empty /\ cTomb' = NoTomb
        /\ tree' = versions'[Len(versions')]]_vars

\* once committed, a version never changes (also across Reopen)
HistoryImmutable ==
  [][\A n \in 1..Len(versions) : Len(versions') >= n /\ versions'[n] = versions[n]]_vars

TypeOK ==
  /\ tree \in [Key -> Val \cup {None}]
  /\ fPend \in [Key -> Val \cup {None}] /\ cPend \in [Key -> Val \cup {None}]
  /\ \A k \in Key : fTomb[k] \in Nat /\ cTomb[k] \in Nat
=============================================================================
