---------------------------- MODULE PrivValInd ----------------------------
(* Inductive invariant of PrivVal.tla for Apalache: NoDoubleSign and PersistBeforeRelease hold after ANY number of steps
   (requests, releases, crashes, reloads) for the given finite sets of heights, rounds, block ids and timestamps.
     apalache-mc check --init=IndInit --inv=IndInv --length=1 --cinit=CInit PrivValInd.tla   (inductive step)
     apalache-mc check --init=Init --inv=IndInv --length=0 --cinit=CInit PrivValInd.tla      (base case)           *)
EXTENDS PrivVal

CInit == Heights = {1, 2, 3} /\ Rounds = {0, 1, 2} /\ Bids = {0, 1, 2} /\ Stamps = {1, 2}

MsgSet == [h : Heights \cup {0}, r : Rounds \cup {0}, s : Steps \cup {0}, bid : Bids \cup {0}]
RecSet == [msg : MsgSet, ts : Stamps \cup {0}, signed : BOOLEAN]
RelSet == [msg : MsgSet, ts : Stamps \cup {0}]
ResSet == {"init", "regression", "nosignbytes", "ok", "conflict", "persisted", "crash", "reload"}

Typed ==
  /\ disk \in RecSet /\ mem \in RecSet /\ pend \in RecSet /\ up \in BOOLEAN
  /\ released \in SUBSET RelSet
  /\ last \in [req : MsgSet, ts : Stamps \cup {0}, res : ResSet, sig : RecSet]

\* @type: ({ msg: { h: Int, r: Int, s: Int, bid: Int }, ts: Int, signed: Bool }) => { msg: { h: Int, r: Int, s: Int, bid: Int }, ts: Int };
AsRel(rc) == [msg |-> rc.msg, ts |-> rc.ts]

IndInv ==
  /\ Typed
  \* the record is either the initial one or a signed one at a real height
  /\ (disk = NoRec \/ (disk.signed /\ disk.msg.h \in Heights /\ disk.msg.s \in Steps))
  \* a running process holds the durable record; a stopped one holds nothing
  /\ (up => mem = disk) /\ (~up => mem = NoRec /\ pend = NoRec)
  \* a persisted but unreleased signature is the durable record and lies strictly above everything released
  /\ (pend # NoRec => pend = disk /\ pend.signed /\ \A y \in released : Less(HRS(y.msg), HRS(pend.msg)))
  \* nothing released lies above the durable record; what was released AT the record's height/round/step is the record
  /\ \A x \in released : Leq(HRS(x.msg), HRS(disk.msg)) /\ x.msg.h \in Heights
  /\ \A y \in released : HRS(y.msg) = HRS(disk.msg) => y = AsRel(disk)
  /\ NoDoubleSign

IndInit == IndInv
=============================================================================
