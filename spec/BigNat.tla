------------------------------- MODULE BigNat -------------------------------
(***************************************************************************)
(* Exact arithmetic on naturals of arbitrary size for TLC, whose integers  *)
(* are 32-bit while rigo-go's amounts are 256-bit.  A number is a          *)
(* little-endian sequence of limbs in base B = 1000 without a leading      *)
(* (most significant) zero limb; zero is the empty sequence, so equality   *)
(* of numbers is equality of sequences.                                    *)
(* MC_BigNat checks every operator against integer arithmetic.             *)
(***************************************************************************)
EXTENDS Integers, Sequences

B == 1000

RECURSIVE Trim(_)
Trim(s) == IF s = <<>> THEN <<>>
           ELSE IF s[Len(s)] = 0 THEN Trim(SubSeq(s, 1, Len(s) - 1)) ELSE s

IsBig(s) == /\ \A i \in 1..Len(s) : s[i] \in 0..(B - 1)
            /\ (s # <<>> => s[Len(s)] # 0)

BZero == <<>>

RECURSIVE FromNat(_)
FromNat(n) == IF n = 0 THEN <<>> ELSE <<n % B>> \o FromNat(n \div B)

\* value of a big number as an integer, saturating at 2*10^9 (TLC integers are 32-bit)
RECURSIVE ToNatRaw(_)
ToNatRaw(s) == IF s = <<>> THEN 0 ELSE s[1] + B * ToNatRaw(Tail(s))
ToNat(s) == IF Len(s) > 4 \/ (Len(s) = 4 /\ s[4] >= 2) THEN 2000000000 ELSE ToNatRaw(s)

Limb(s, i) == IF i <= Len(s) THEN s[i] ELSE 0
Max(a, b) == IF a >= b THEN a ELSE b

RECURSIVE AddC(_, _, _, _)
AddC(a, b, i, c) ==
  IF i > Max(Len(a), Len(b)) THEN (IF c = 0 THEN <<>> ELSE <<c>>)
  ELSE LET t == Limb(a, i) + Limb(b, i) + c IN <<t % B>> \o AddC(a, b, i + 1, t \div B)
BAdd(a, b) == AddC(a, b, 1, 0)

RECURSIVE CmpFrom(_, _, _)
CmpFrom(a, b, i) ==   \* compares limbs i, i-1, ..., 1 (equal lengths assumed above i)
  IF i = 0 THEN 0
  ELSE IF Limb(a, i) < Limb(b, i) THEN -1
  ELSE IF Limb(a, i) > Limb(b, i) THEN 1
  ELSE CmpFrom(a, b, i - 1)
BCmp(a, b) == IF Len(a) < Len(b) THEN -1 ELSE IF Len(a) > Len(b) THEN 1 ELSE CmpFrom(a, b, Len(a))
BLeq(a, b) == BCmp(a, b) <= 0
BLt(a, b)  == BCmp(a, b) < 0

\* a - b for a >= b
RECURSIVE SubC(_, _, _, _)
SubC(a, b, i, c) ==
  IF i > Len(a) THEN <<>>
  ELSE LET t == Limb(a, i) - Limb(b, i) - c IN
       IF t < 0 THEN <<t + B>> \o SubC(a, b, i + 1, 1) ELSE <<t>> \o SubC(a, b, i + 1, 0)
BSub(a, b) == Trim(SubC(a, b, 1, 0))

\* a * n for a small natural n (n < 2^31 / 1000)
RECURSIVE MulSmallC(_, _, _, _)
MulSmallC(a, n, i, c) ==
  IF i > Len(a) THEN FromNat(c)
  ELSE LET t == Limb(a, i) * n + c IN <<t % B>> \o MulSmallC(a, n, i + 1, t \div B)
BMulSmall(a, n) == IF n = 0 THEN <<>> ELSE MulSmallC(a, n, 1, 0)

\* shift left by k limbs (multiply by B^k)
RECURSIVE Zeros(_)
Zeros(k) == IF k = 0 THEN <<>> ELSE <<0>> \o Zeros(k - 1)
BShift(a, k) == IF a = <<>> THEN <<>> ELSE Zeros(k) \o a

\* full product
RECURSIVE MulAcc(_, _, _)
MulAcc(a, b, j) ==
  IF j > Len(b) THEN <<>>
  ELSE BAdd(BShift(BMulSmall(a, b[j]), j - 1), MulAcc(a, b, j + 1))
BMul(a, b) == MulAcc(a, b, 1)

\* The amount bonded per unit of voting power is B^UnitLimbs: 10^18 (UnitLimbs = 6) for the powers the application
\* counts in.  Histories whose powers are far beyond the tools' 32-bit integers are recorded in units of 10^12 powers
\* (every bonded amount a multiple of 10^30): they are evaluated with UnitLimbs <- 10 (RigoTraceBig.cfg), everything else
\* being the same.
UnitLimbs == 6
E18 == <<0, 0, 0, 0, 0, 0, 1>>
\* power (small natural) -> amount
PowerAmount(p) == BShift(FromNat(p), UnitLimbs)
\* a is a positive multiple of the amount per unit of power
IsMultE18(a) == Len(a) >= UnitLimbs + 1 /\ \A i \in 1..UnitLimbs : a[i] = 0
\* a \div (amount per unit of power) as a big number
BDivE18(a) == IF Len(a) <= UnitLimbs THEN <<>> ELSE SubSeq(a, UnitLimbs + 1, Len(a))

\* sum of a sequence / of a function's range of big numbers
RECURSIVE BSumSeq(_)
BSumSeq(s) == IF s = <<>> THEN <<>> ELSE BAdd(Head(s), BSumSeq(Tail(s)))

RECURSIVE BSumFun(_, _)
BSumFun(f, dom) ==   \* sum of f[x] for x in dom
  IF dom = {} THEN <<>>
  ELSE LET x == CHOOSE y \in dom : TRUE IN BAdd(f[x], BSumFun(f, dom \ {x}))

\* 2^256 and 2^255 in limbs (literals: TLC re-evaluates definitions at every use; MC_BigNat checks them against Pow2)
RECURSIVE Pow2(_)
Pow2(n) == IF n = 0 THEN <<1>> ELSE BMulSmall(Pow2(n - 1), 2)
Two256 == <<936, 639, 129, 913, 7, 584, 457, 39, 564, 640, 665, 984, 269, 853, 907, 687, 8, 985, 570, 423, 195, 316, 237, 89, 792, 115>>
Two255 == <<968, 819, 564, 956, 3, 792, 728, 19, 282, 820, 332, 992, 634, 926, 953, 343, 504, 492, 785, 711, 97, 658, 618, 44, 896, 57>>
=============================================================================
