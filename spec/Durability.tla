----------------------------- MODULE Durability -----------------------------
(***************************************************************************)
(* Commit of rigo-go refined into its individual durable writes, with      *)
(* process death at any instant, reopen, Info and the consensus engine's   *)
(* handshake/replay (property C08).                                        *)
(*                                                                         *)
(* RigoApp.Commit() writes, one after another and each durably:            *)
(*   the three governance ledgers, the account ledger, the three staking   *)
(*   ledgers, (every 10th height) the reward-hash record, the EVM trie,    *)
(*   the EVM height/root record, and finally the last-block context `bc`   *)
(*   and height `bh` of the application's own meta DB.                     *)
(* Info() reports `bc`.  Nothing is written durably outside Commit.        *)
(*                                                                         *)
(* A store's content is abstracted as the height it was last written for.  *)
(* The guards that make a replay fail are the ones of the code: every      *)
(* controller's Commit demands equal versions of its ledgers, RigoApp      *)
(* demands equal versions of the four controllers, the EVM controller      *)
(* demands BeginBlock(height) = its stored height + 1, RigoApp demands     *)
(* BeginBlock(height) = bc + 1.                                            *)
(*                                                                         *)
(* AsBuilt = TRUE is the pinned code (finding D4).  AsBuilt = FALSE models *)
(* the repair: on open every store is rolled back to the height of `bc`.   *)
(***************************************************************************)
EXTENDS Integers, Sequences, FiniteSets, TLC

CONSTANTS MaxHeight, AsBuilt

Ledgers == <<"gov_params", "proposal", "frozen_proposal", "accounts", "delegatees", "frozen", "rewards">>
\* the durable writes of Commit(h), in the code's order
Writes(h) == Ledgers \o (IF h % 10 = 0 THEN <<"rh">> ELSE <<>>) \o <<"evm_trie", "evm_meta", "bc", "bh">>
Stores == {Ledgers[i] : i \in 1..Len(Ledgers)} \cup {"rh", "evm_trie", "evm_meta", "bc", "bh"}
\* stores whose version is compared by the guards
Versioned == {Ledgers[i] : i \in 1..Len(Ledgers)} \cup {"evm_meta"}

VARIABLES
  disk,     \* [Stores -> Nat] height each store was last written for
  alive,    \* the process is running
  h,        \* the block being processed (alive) / the block the engine has decided (store height)
  step,     \* 0 = executing the block (no durable write yet); k > 0 = the first k writes of Commit(h) are done
  info,     \* what Info reported at the last open
  bricked,  \* a reopen or replay failed
  forked,   \* the node continued with a state that differs from the never-crashed node
  crashes,  \* number of crashes so far
  rec       \* observation: the last recovery <<height is a multiple of 10, writes completed before the crash, recovered>>
vars == <<disk, alive, h, step, info, bricked, forked, crashes, rec>>

Init ==
  /\ disk = [s \in Stores |-> 0] /\ alive = TRUE /\ h = 1 /\ step = 0
  /\ info = 0 /\ bricked = FALSE /\ forked = FALSE /\ crashes = 0 /\ rec = <<>>

Consistent(d, x) == \A s \in Versioned : d[s] = x

\* one more durable write of Commit(h)
CommitStep ==
  /\ alive /\ ~bricked /\ h <= MaxHeight /\ step < Len(Writes(h))
  /\ disk' = [disk EXCEPT ![Writes(h)[step + 1]] = h]
  /\ step' = step + 1
  /\ UNCHANGED <<alive, h, info, bricked, forked, crashes, rec>>

\* Commit returned: the engine decides the next block
NextBlock ==
  /\ alive /\ ~bricked /\ step = Len(Writes(h)) /\ h < MaxHeight + 1
  /\ h' = h + 1 /\ step' = 0
  /\ UNCHANGED <<disk, alive, info, bricked, forked, crashes, rec>>

\* the process dies (anywhere: while executing the block, or between two writes of Commit)
Crash ==
  /\ alive /\ ~bricked /\ h <= MaxHeight /\ crashes < 2
  /\ alive' = FALSE /\ crashes' = crashes + 1
  /\ UNCHANGED <<disk, h, step, info, bricked, forked, rec>>

\* the durable state after the first k writes of Commit(hh), starting from a consistent state at hh - 1
DiskAfter(hh, k) ==
  [s \in Stores |-> IF \E i \in 1..k : Writes(hh)[i] = s THEN hh
                    ELSE IF s = "rh" THEN (hh - 1) - ((hh - 1) % 10) ELSE hh - 1]
Opened(d) == IF AsBuilt THEN d ELSE [s \in Stores |-> IF d[s] > d["bc"] THEN d["bc"] ELSE d[s]]
\* does a node that died after k writes of Commit(hh) come back (block store at hh)?
Recovers(d, hh) == \/ d["bc"] = hh /\ Consistent(d, hh)
                   \/ d["bc"] = hh - 1 /\ Consistent(d, hh - 1)
PredictRecover(hh, k) == Recovers(Opened(DiskAfter(hh, k)), hh)

(* Reopen + Info + handshake + replay of block h, as one step.              *)
(* The engine's block store holds block h.  Info reports bc.                *)
(*  bc = h     : nothing to replay; the application continues with h + 1    *)
(*  bc = h - 1 : block h is replayed through the application: it succeeds   *)
(*               iff every versioned store is at h - 1                      *)
(*  bc > h     : the engine refuses to start                                *)
Recover ==
  /\ ~alive
  /\ LET d == IF AsBuilt THEN disk
              ELSE [s \in Stores |-> IF disk[s] > disk["bc"] THEN disk["bc"] ELSE disk[s]]  \* rolled back on open
         bc == d["bc"]
     IN /\ info' = bc
        /\ IF bc = h /\ Consistent(d, h)
             THEN /\ disk' = d /\ step' = Len(Writes(h)) /\ bricked' = FALSE
           ELSE IF bc = h - 1 /\ Consistent(d, h - 1)
             THEN /\ disk' = d /\ step' = 0 /\ bricked' = FALSE      \* replay of block h starts from scratch
           ELSE /\ disk' = d /\ step' = step /\ bricked' = TRUE
        /\ rec' = <<h % 10 = 0, step, ~bricked'>>
  /\ alive' = TRUE
  /\ UNCHANGED <<h, forked, crashes>>

Next == CommitStep \/ NextBlock \/ Crash \/ Recover

Spec == Init /\ [][Next]_vars

---------------------------------------------------------------------------
(* C08 *)
NeverBricked == ~bricked
\* Info after a reopen is the last fully committed block or the interrupted one
InfoIsReconcilable == [][~alive /\ alive' => (info' \in {h - 1, h} \/ bricked')]_vars
TypeOK == step \in 0..12 /\ h \in 1..(MaxHeight + 1)
=============================================================================
