------------------------------ MODULE RigoProps ------------------------------
(***************************************************************************)
(* The listed properties of rigo-go as predicates over ONE observed step   *)
(*                                                                         *)
(*        (pre, e, post, mon)                                              *)
(*                                                                         *)
(* pre / post : projections of the application state before / after the    *)
(*              ABCI call (consensus view of all ledgers, volatile state,  *)
(*              block accumulators; the shape is documented in DESIGN.md   *)
(*              appendix A),                                               *)
(* e          : the call: request abstraction + response,                  *)
(* mon        : history monitors (genesis total, minted, burned, folded    *)
(*              validator updates, stake births, committed snapshots ...). *)
(*                                                                         *)
(* The same operators are used (a) as invariants of the bounded models     *)
(* (MC_*.tla, where pre/post are model states rendered in this shape) and  *)
(* (b) on values recorded from the real code (RigoTrace.tla).  They never  *)
(* use the model's prediction: every reference value is computed from the  *)
(* recorded pre-state, request and monitors.  Each operator returns the    *)
(* set of violated clauses as strings prefixed with the property id.       *)
(***************************************************************************)
EXTENDS Integers, Sequences, FiniteSets, BigNat

---------------------------------------------------------------------------
(* generic helpers *)

Range(f) == {f[x] : x \in DOMAIN f}
SeqSet(s) == {s[i] : i \in 1..Len(s)}

RECURSIVE SumSet(_, _)
SumSet(f, S) == IF S = {} THEN 0 ELSE LET x == CHOOSE y \in S : TRUE IN f[x] + SumSet(f, S \ {x})

RECURSIVE SumPow(_)
SumPow(s) == IF s = <<>> THEN 0 ELSE Head(s).pow + SumPow(Tail(s))

RECURSIVE SumPowIf(_, _)    \* sum of pow over stakes owned by `who`
SumPowIf(s, who) == IF s = <<>> THEN 0
                    ELSE (IF Head(s).from = who THEN Head(s).pow ELSE 0) + SumPowIf(Tail(s), who)

FilterSeq(s, P(_)) == SelectSeq(s, P)

If(c, s) == IF c THEN {s} ELSE {}

EmptyAcct == [bal |-> <<>>, nonce |-> 0, code |-> 0, name |-> "", url |-> ""]
Acct(s, a) == IF a \in DOMAIN s.accts THEN s.accts[a] ELSE EmptyAcct
Bal(s, a) == Acct(s, a).bal
Nonce(s, a) == Acct(s, a).nonce
\* an absent account and an empty one are the same thing for every observer
LiveAccts(s) == {a \in DOMAIN s.accts : s.accts[a] # EmptyAcct}
SameAccts(s, t) == /\ LiveAccts(s) = LiveAccts(t)
                   /\ \A a \in LiveAccts(s) : s.accts[a] = t.accts[a]

EmptyReward == [cum |-> <<>>]
Cum(s, a) == IF a \in DOMAIN s.rewards THEN s.rewards[a].cum ELSE <<>>

AllStakes(s) == UNION {SeqSet(s.delegs[d].stakes) : d \in DOMAIN s.delegs}
BondedPower(s) == SumSet([d \in DOMAIN s.delegs |-> SumPow(s.delegs[d].stakes)], DOMAIN s.delegs)
FrozenPower(s) == SumPow(s.frozen)
StakePower(s) == BondedPower(s) + FrozenPower(s)

SumBalances(s) == BSumFun([a \in DOMAIN s.accts |-> s.accts[a].bal], DOMAIN s.accts)

\* everything of value except fees collected in the running block
Holdings(s) == BAdd(SumBalances(s), PowerAmount(StakePower(s)))

GovNat(g, f) == ToNat(g[f])          \* limb-valued parameter known to be small
Fee(tx, g) == BMul(tx.gas, g.gasPrice)   \* gas limit x governance price (both limbs)

IsTx(e) == e.ev = "DeliverTx" /\ e.tx.type # "garbage"
Native(tx) == tx.type \in {"transfer", "staking", "unstaking", "proposal", "voting", "setdoc", "withdraw"}
HasEvm(s) == "evm" \in DOMAIN s
IsContract(s, a) == HasEvm(s) /\ a \in DOMAIN s.evm
\* a transaction executed by the EVM: contract type, or a transfer to an account that has code
EvmTx(pre, tx) == tx.type = "contract" \/ (tx.type = "transfer" /\ Acct(pre, tx.to).code = 1)

---------------------------------------------------------------------------
(* C05 - a failed transaction has no effect *)

Observable(s) ==
  [delegs |-> s.delegs, frozen |-> s.frozen, rewards |-> s.rewards, props |-> s.props, fprops |-> s.fprops,
   gov |-> s.gov, govPending |-> s.govPending, govLedger |-> s.govLedger, feeSum |-> s.feeSum,
   evm |-> IF HasEvm(s) THEN s.evm ELSE <<>>]

C05(e, pre, post) ==
  IF e.ev = "DeliverTx" /\ ~e.resp.ok THEN
       If(~SameAccts(pre, post), "C05: a failed transaction changed an account (balance, nonce, name, document or code)")
       \cup If(pre.delegs # post.delegs \/ pre.frozen # post.frozen, "C05: a failed transaction changed bonded or unbonding stake")
       \cup If(pre.rewards # post.rewards, "C05: a failed transaction changed a reward record")
       \cup If(pre.props # post.props \/ pre.fprops # post.fprops, "C05: a failed transaction changed a proposal or vote")
       \cup If(pre.gov # post.gov \/ pre.govPending # post.govPending \/ pre.govLedger # post.govLedger,
               "C05: a failed transaction changed governance parameters")
       \cup If(pre.feeSum # post.feeSum, "C05: a fee was collected for a failed transaction")
       \cup If(HasEvm(pre) /\ HasEvm(post) /\ pre.evm # post.evm, "C05: a failed transaction changed contract code or storage")
       \cup If("evmSynced" \in DOMAIN pre.vol /\ "evmSynced" \in DOMAIN post.vol /\ pre.vol.evmSynced # post.vol.evmSynced,
               "C05: a failed transaction left accounts marked as copied into the EVM state (later transactions do not observe the unchanged state)")
       \cup If(pre.vol.limiter # post.vol.limiter,
               "C05: a failed transaction consumed part of the block's stake-change limits (later transactions do not observe the unchanged state)")
  ELSE {}

---------------------------------------------------------------------------
(* C04 - nonces *)

C04(e, pre, post, mon) ==
  IF IsTx(e) THEN
    LET tx == e.tx  a == tx.from IN
      If(e.resp.ok /\ tx.nonce # Nonce(pre, a), "C04: a transaction succeeded although its nonce differs from the sender's nonce")
      \cup If(e.resp.ok /\ Nonce(post, a) # Nonce(pre, a) + 1, "C04: a successful transaction did not raise the sender's nonce by exactly one")
      \cup If(~e.resp.ok /\ Nonce(post, a) # Nonce(pre, a), "C04: a failed transaction changed the sender's nonce")
      \cup If(\E b \in (DOMAIN pre.accts \cup DOMAIN post.accts) \ {a} :
                 Nonce(post, b) # Nonce(pre, b)
                 \* (contract execution sets the nonces of the contract accounts it creates or destroys - also of a created
                 \* account that ends without code: the native ledger marks it as created by the EVM)
                 /\ ~(EvmTx(pre, tx) /\ e.resp.ok /\ (IsContract(post, b) \/ IsContract(pre, b) \/ Acct(post, b).code = 1 \/ Acct(pre, b).code = 1)),
              "C04: a transaction changed the nonce of an account other than its sender")
      \cup If(e.resp.ok /\ tx.hash \in mon.delivered, "C04: the same signed transaction took effect twice")
  ELSE IF e.ev \in {"BeginBlock", "EndBlock", "Commit", "CheckTx", "Restart"} \/ (e.ev = "DeliverTx" /\ ~IsTx(e)) THEN
      If(\E b \in DOMAIN pre.accts \cup DOMAIN post.accts : Nonce(post, b) # Nonce(pre, b),
         "C04: a nonce changed outside the delivery of a transaction")
  ELSE {}

---------------------------------------------------------------------------
(* C03 - only the key holder *)

C03(e, pre, post) ==
  IF e.ev = "DeliverTx" /\ e.tx.auth # "valid" THEN
      If(e.resp.ok, "C03: a transaction whose signature does not cover its executed field values / chain / sender was accepted (" \o e.tx.auth \o ")")
      \cup If(~SameAccts(pre, post) \/ Observable(pre) # Observable(post),
              "C03: a transaction without a valid signature changed state (" \o e.tx.auth \o ")")
      \* ... nor anything later transactions of the block depend on
      \cup If(pre.vol.limiter # post.vol.limiter
                \/ ("evmSynced" \in DOMAIN pre.vol /\ "evmSynced" \in DOMAIN post.vol /\ pre.vol.evmSynced # post.vol.evmSynced),
              "C03: a transaction without a valid signature consumed the block's stake-change limits / left EVM bridge state behind (" \o e.tx.auth \o ")")
  ELSE {}

---------------------------------------------------------------------------
(* C16 - fees and gas *)

\* value destroyed by a contract that self-destructs into itself (by EVM definition; recorded from the reference run)
EvmBurnBy(e) == IF e.ev = "DeliverTx" /\ "evmBurn" \in DOMAIN e THEN e.evmBurn ELSE <<>>

\* value that leaves / enters the sender's balance besides the fee
Outflow(tx) == IF tx.type \in {"transfer", "staking"} THEN tx.amount ELSE <<>>
Inflow(tx)  == IF tx.type = "withdraw" THEN tx.payload.req
               ELSE IF tx.type = "transfer" /\ tx.to = tx.from THEN tx.amount ELSE <<>>

C16(e, pre, post, mon) ==
  IF IsTx(e) THEN
    LET tx == e.tx  g == pre.gov  fee == Fee(tx, g)  ok == e.resp.ok IN
      If(ok /\ tx.gasPrice # g.gasPrice, "C16: admitted with a gas price different from the governance gas price")
      \cup If(ok /\ BLt(fee, BMul(g.minTrxGas, g.gasPrice)), "C16: admitted although gas limit x price is below the minimum fee")
      \* the parameters "currently set by governance" are those the governance query returns for the previous block
      \cup (IF ok /\ (post.h - 1) \in DOMAIN mon.snaps /\ "gasPrice" \in DOMAIN mon.snaps[post.h - 1].gov THEN
              LET q == mon.snaps[post.h - 1].gov IN
              If(tx.gasPrice # q.gasPrice \/ BLt(BMul(tx.gas, q.gasPrice), BMul(q.minTrxGas, q.gasPrice)),
                 "C16: admitted at a price / below a minimum fee that are not those of the parameters committed by the previous block (governance query)")
            ELSE {})
      \cup If(ok /\ Native(tx) /\ ~EvmTx(pre, tx)
                 /\ BAdd(Bal(post, tx.from), BAdd(fee, Outflow(tx))) # BAdd(Bal(pre, tx.from), Inflow(tx)),
              "C16: a successful native transaction did not cost its sender exactly gas limit x price (plus the value it moves)")
      \cup If(ok /\ Native(tx) /\ ~EvmTx(pre, tx) /\ (e.resp.gasUsed # tx.gas \/ e.resp.gasWanted # tx.gas),
              "C16: gas used / wanted of a native transaction is not its gas limit")
      \cup If(ok /\ EvmTx(pre, tx) /\ BLt(tx.gas, e.resp.gasUsed), "C16: a contract transaction used more gas than its limit")
      \* a contract transaction only moves value between accounts: all balances together fall by exactly gas used x price
      \* (plus what a self-destruct into itself burns by EVM definition)
      \cup If(ok /\ EvmTx(pre, tx)
                 /\ BAdd(SumBalances(post), BAdd(BMul(e.resp.gasUsed, g.gasPrice), EvmBurnBy(e))) # SumBalances(pre),
              "C16: a successful contract transaction did not cost exactly gas used x price")
      \cup If(ok /\ post.feeSum # BAdd(pre.feeSum, BMul(e.resp.gasUsed, g.gasPrice)),
              "C16: the block's fee sum did not grow by exactly gas used x price")
      \cup If(~ok /\ post.feeSum # pre.feeSum, "C16: fee accumulated for a failed transaction")
  ELSE IF e.ev = "EndBlock" THEN
    \* credit at the end of the block: the proposer receives the fee sum; refunds of matured
    \* unbonding stakes (C12) are the only other balance changes
    LET gone == {s \in SeqSet(pre.frozen) : ~\E t \in SeqSet(post.frozen) : t.key = s.key}
        Refund(b) == PowerAmount(SumPow(FilterSeq(pre.frozen, LAMBDA s : s \in gone /\ s.from = b)))
        Credit(b) == IF b = mon.proposer THEN pre.feeSum ELSE <<>>
    IN If(\E b \in DOMAIN pre.accts \cup DOMAIN post.accts :
             Bal(post, b) # BAdd(Bal(pre, b), BAdd(Refund(b), Credit(b))),
          "C16: end of block changed a balance by something other than the proposer's fee credit and matured refunds")
  ELSE {}

---------------------------------------------------------------------------
(* C02 - conservation of value *)

(* Stepwise form: what the system holds after the step (balances, bonded    *)
(* and unbonding stake, fees collected in the running block and not yet     *)
(* credited) plus what the step destroyed by rule (slashed stake, fees of   *)
(* a block without proposer) equals what it held before plus what the step  *)
(* minted (withdrawn rewards).  mon.pending = fees collected in the running *)
(* block before this step.                                                  *)
PendingAfter(e, post, mon) ==
  CASE e.ev = "BeginBlock" -> <<>>
    [] e.ev = "DeliverTx"  -> post.feeSum
    [] e.ev = "EndBlock"   -> <<>>
    [] OTHER -> mon.pending

MintedBy(e) == IF IsTx(e) /\ e.resp.ok /\ e.tx.type = "withdraw" THEN e.tx.payload.req ELSE <<>>
BurnedBy(e, pre, post) ==
  IF e.ev = "BeginBlock" /\ StakePower(pre) > StakePower(post) THEN StakePower(pre) - StakePower(post) ELSE 0
LostBy(e, pre, mon) == IF e.ev = "EndBlock" /\ mon.proposer = "none" THEN pre.feeSum ELSE <<>>

C02(e, pre, post, mon) ==
  IF e.ev \in {"BeginBlock", "DeliverTx", "EndBlock", "Commit", "CheckTx", "Restart"} THEN
    LET lhs == BAdd(BAdd(Holdings(post), PendingAfter(e, post, mon)),
                    BAdd(PowerAmount(BurnedBy(e, pre, post)), BAdd(LostBy(e, pre, mon), EvmBurnBy(e))))
        rhs == BAdd(BAdd(Holdings(pre), mon.pending), MintedBy(e))
    IN If(lhs # rhs, "C02: this step created or destroyed value: balances + bonded + unbonding stake + pending fees changed by something other than a reward withdrawal, slashing, or the fees of a block without proposer")
       \cup If(e.ev = "BeginBlock" /\ StakePower(post) > StakePower(pre), "C02: stake appeared at the beginning of a block")
       \cup If(e.ev = "BeginBlock" /\ StakePower(post) < StakePower(pre)
                  /\ ~\E i \in 1..Len(e.evidence) : e.evidence[i].v \in DOMAIN pre.delegs,
               "C02: stake was destroyed in a block without evidence against its validator")
       \cup If(e.ev = "Commit" /\ BAdd(Holdings(post), BAdd(PowerAmount(mon.burnedPower), BAdd(mon.lostFees, mon.evmBurn))) # BAdd(mon.gtotal, mon.minted)
                  /\ ~mon.broken,
               "C02: after the block, balances + stakes do not equal the genesis total + withdrawn rewards - slashed stake - lost fees")
  ELSE {}

---------------------------------------------------------------------------
(* C11 - stake bookkeeping *)

C11State(s) ==
  If(\E d \in DOMAIN s.delegs : s.delegs[d].total # SumPow(s.delegs[d].stakes),
     "C11: a delegatee's total power differs from the sum of the stakes bonded to it")
  \cup If(\E d \in DOMAIN s.delegs : s.delegs[d].self # SumPowIf(s.delegs[d].stakes, d),
          "C11: a delegatee's self power differs from the sum of its owner's own stakes")
  \cup If(\E d \in DOMAIN s.delegs : \E st \in SeqSet(s.delegs[d].stakes) : st.to # d \/ st.pow < 0,
          "C11: a stake is recorded under a delegatee other than its target, or has negative power")

\* Every stake is recorded in exactly one place (bonded under its delegatee, or unbonding) from the
\* successful staking transaction that creates it until it is refunded (or forfeited by slashing),
\* with owner and target unchanged.  Stepwise: stakes appear and disappear only by those events.
StakeKey(st) == <<st.id, st.to>>
BondedKeys(s) == {StakeKey(st) : st \in AllStakes(s)}
UnbondKeys(s) == {StakeKey(st) : st \in SeqSet(s.frozen)}
Here(s) == BondedKeys(s) \cup UnbondKeys(s)

C11Places(e, pre, post, mon) ==
  LET vanished == Here(pre) \ Here(post)
      appeared == Here(post) \ Here(pre)
      named == IF e.ev = "BeginBlock" THEN {e.evidence[i].v : i \in 1..Len(e.evidence)} ELSE {}
      OkVanish(k) == \/ e.ev = "EndBlock" /\ k \in UnbondKeys(pre)
                     \/ e.ev = "BeginBlock" /\ k[2] \in named /\ k \in BondedKeys(pre)
      staked == IsTx(e) /\ e.resp.ok /\ e.tx.type = "staking"
      OkAppear(k) == staked /\ k = <<e.tx.hash, e.tx.to>>
  IN If(\E k \in vanished : ~OkVanish(k), "C11: a stake that was not refunded is recorded nowhere any more")
     \cup If(\E k \in appeared : ~OkAppear(k), "C11: a stake exists that no successful staking transaction (or the genesis) created")
     \cup If(staked /\ ~\E st \in AllStakes(post) : /\ StakeKey(st) = <<e.tx.hash, e.tx.to>> /\ st.from = e.tx.from
                                                     /\ PowerAmount(st.pow) = e.tx.amount,
             "C11: a successful staking transaction is not recorded as a stake of its sender, under its target, with power = amount / 10^18")
     \cup If(BondedKeys(post) \cap UnbondKeys(post) # {}, "C11: a stake is recorded as bonded and as unbonding at once")
     \cup If(Cardinality(BondedKeys(post)) # Cardinality(AllStakes(post)) \/ Cardinality(UnbondKeys(post)) # Len(post.frozen),
             "C11: two records exist for one stake")
     \cup If(\E st \in AllStakes(post) \cup SeqSet(post.frozen) :
                StakeKey(st) \in DOMAIN mon.born /\ (mon.born[StakeKey(st)].from # st.from \/ st.pow > mon.born[StakeKey(st)].pow),
             "C11: a stake's owner changed or its power grew")

\* power of existing stakes changes only by slashing (BeginBlock with evidence against the delegatee)
C11Power(e, pre, post) ==
  If(\E st \in AllStakes(pre) \cup SeqSet(pre.frozen) : \E su \in AllStakes(post) \cup SeqSet(post.frozen) :
        StakeKey(st) = StakeKey(su) /\ st.pow # su.pow
        /\ ~(e.ev = "BeginBlock" /\ \E i \in 1..Len(e.evidence) : e.evidence[i].v = st.to),
     "C11: the power of a stake changed without slashing evidence against its delegatee")

C11(e, pre, post, mon) ==
  IF e.ev \in {"BeginBlock", "DeliverTx", "EndBlock", "Commit", "Restart", "CheckTx"}
  THEN C11State(post) \cup C11Power(e, pre, post) \cup C11Places(e, pre, post, mon)
       \cup If(e.ev = "Commit" /\ "committed" \in DOMAIN e /\ e.committed.totalPower # BondedPower(post),
               "C11: the total-power query differs from the sum of all delegatees' power")
  ELSE {}

---------------------------------------------------------------------------
(* C12 - unbonding *)

FindStake(s, d, id) ==    \* the set (0 or 1 elements) of stakes with this id bonded to d
  IF d \in DOMAIN s.delegs THEN {st \in SeqSet(s.delegs[d].stakes) : st.id = id} ELSE {}

C12(e, pre, post, mon) ==
  LET h == post.h
      entered == {s \in SeqSet(post.frozen) : ~\E t \in SeqSet(pre.frozen) : t.key = s.key}
      left    == {s \in SeqSet(pre.frozen) : ~\E t \in SeqSet(post.frozen) : t.key = s.key}
      kept    == {s \in SeqSet(pre.frozen) : \E t \in SeqSet(post.frozen) : t.key = s.key}
  IN
  (IF IsTx(e) /\ e.tx.type = "unstaking" /\ e.resp.ok THEN
      LET cand == FindStake(pre, e.tx.to, e.tx.payload.stake) IN
        If(cand = {}, "C12: an unstaking transaction succeeded for a stake that is not bonded to the named delegatee")
        \cup If(\E st \in cand : st.from # e.tx.from, "C12: a stake was released by an account other than the one that created it")
        \cup If(FindStake(post, e.tx.to, e.tx.payload.stake) # {}, "C12: a released stake still carries voting power")
   ELSE {})
  \cup
  (IF e.ev \in {"DeliverTx", "BeginBlock"} THEN
      If(\E s \in entered : s.refund # h + pre.gov.lazyRewardBlocks,
         "C12: a released stake is not locked for exactly the unbonding period in force at its release")
      \cup If(left # {}, "C12: an unbonding stake disappeared outside the end of a block")
      \* released or force-released: whatever leaves the bonded set (other than the stakes of an accused validator, C14)
      \* starts unbonding for its owner, in full
      \cup LET named == IF e.ev = "BeginBlock" THEN {e.evidence[i].v : i \in 1..Len(e.evidence)} ELSE {}
               gone == {st \in AllStakes(pre) : StakeKey(st) \notin BondedKeys(post) /\ st.to \notin named}
           IN If(\E st \in gone : ~\E f \in entered : f.id = st.id /\ f.to = st.to /\ f.from = st.from /\ f.pow = st.pow,
                 "C12: a stake left the bonded set without starting to unbond for its owner with its full power")
   ELSE {})
  \cup
  (IF e.ev = "EndBlock" THEN
      If(\E s \in left : s.refund > h, "C12: an unbonding stake was refunded before its waiting period ended")
      \cup If(entered # {}, "C12: a stake started unbonding at the end of a block")
      \cup If(\E s \in kept : s.refund <= h /\ s.key \in mon.frozenC,
              "C12: a matured unbonding stake was not refunded at the end of the block")
      \cup If(left # {} /\ \E b \in DOMAIN pre.accts \cup DOMAIN post.accts :
                 Bal(post, b) # BAdd(Bal(pre, b), BAdd(PowerAmount(SumPow(SelectSeq(pre.frozen, LAMBDA s : s \in left /\ s.from = b))),
                                                      IF b = mon.proposer THEN pre.feeSum ELSE <<>>)),
              "C12: a matured stake was not credited back to its owner in full (power x 10^18), exactly once and to nobody else")
   ELSE {})
  \cup
  (IF e.ev \in {"Commit", "Restart", "CheckTx"} THEN If(entered # {} \/ left # {}, "C12: unbonding stakes changed outside block execution") ELSE {})
  \cup
  (IF e.ev \in {"BeginBlock", "DeliverTx", "EndBlock", "Commit", "Restart", "CheckTx"} THEN
      If(\E s \in kept : \E t \in SeqSet(post.frozen) : t.key = s.key /\ (t.refund # s.refund \/ t.from # s.from \/ t.pow # s.pow),
         "C12: refund height, owner or amount of an unbonding stake changed while it was waiting")
      \cup If(\E s \in entered : s.id \in mon.refundedIds, "C12: a stake that was already refunded started unbonding again")
   ELSE {})

---------------------------------------------------------------------------
(* C10 - validator updates mirror the staking ledger *)

RECURSIVE Fold(_, _)
Fold(cv, ups) ==    \* apply validator updates in order to a (name -> power) function
  IF ups = <<>> THEN cv
  ELSE LET u == Head(ups)
           nxt == IF u.pow = 0 THEN [x \in DOMAIN cv \ {u.v} |-> cv[x]]
                  ELSE [x \in DOMAIN cv \cup {u.v} |-> IF x = u.v THEN u.pow ELSE cv[x]]
       IN Fold(nxt, Tail(ups))

RECURSIVE WellFormedUps(_, _, _)
WellFormedUps(cv, ups, seen) ==
  IF ups = <<>> THEN {}
  ELSE LET u == Head(ups) IN
       If(u.v \in seen, "C10: two updates for one validator in the same block")
       \cup If(u.pow < 0 \/ u.powNeg, "C10: update with negative (or out-of-range) voting power")
       \cup If(u.pow = 0 /\ u.v \notin DOMAIN cv, "C10: removal of a validator that is not in the consensus set")
       \cup WellFormedUps(cv, Tail(ups), seen \cup {u.v})

\* cv is a correct top selection of the delegatee ledger `delegs` under parameters g
TopSelection(cv, delegs, g) ==
  LET minPow   == ToNat(BDivE18(g.minValidatorStake))
      eligible == {d \in DOMAIN delegs : delegs[d].self >= minPow}
      want     == IF Cardinality(eligible) < g.maxValidatorCnt THEN Cardinality(eligible) ELSE g.maxValidatorCnt
  IN If(~(DOMAIN cv \subseteq eligible), "C10: the consensus set contains a delegatee whose own stake is below the minimum validator stake (or that does not exist)")
     \cup If(Cardinality(DOMAIN cv) # want, "C10: the consensus set does not have min(max validator count, eligible delegatees) members")
     \cup If(\E c \in DOMAIN cv \cap eligible : cv[c] # delegs[c].total, "C10: a validator's voting power differs from its total bonded power")
     \cup If(\E c \in DOMAIN cv \cap eligible : \E x \in eligible \ DOMAIN cv : delegs[x].total > delegs[c].total,
             "C10: an excluded delegatee has more bonded power than an included validator")

C10(e, pre, post, mon) ==
  IF e.ev = "EndBlock" THEN
    LET ups == e.resp.valUpdates
        cv  == Fold(mon.cons, ups)
    IN WellFormedUps(mon.cons, ups, {})
       \cup (IF post.h = 1 THEN If(cv # mon.cons, "C10: the validator set changed in the first block")
             ELSE IF (post.h - 1) \in DOMAIN mon.snaps THEN TopSelection(cv, mon.snaps[post.h - 1].delegs, pre.gov)
             ELSE {})
  ELSE {}

---------------------------------------------------------------------------
(* C13 - rewards *)

\* the delegatee ledger from which consensus derived the votes of block H
RewardSource(H, mon) == IF H >= 5 THEN (IF (H - 4) \in DOMAIN mon.snaps THEN mon.snaps[H - 4].delegs ELSE <<>>)
                        ELSE mon.genesisDelegs

ExpectedIssue(a, e, src, rpp) ==
  LET signedVals == {e.votes[i].v : i \in {j \in 1..Len(e.votes) : e.votes[j].signed}}
      powOf(v) == IF v \in DOMAIN src THEN SumPowIf(src[v].stakes, a) ELSE 0
  IN BMul(FromNat(SumSet([v \in signedVals |-> powOf(v)], signedVals)), rpp)

AllRewardNames(pre, post) == DOMAIN pre.rewards \cup DOMAIN post.rewards

C13(e, pre, post, mon) ==
  IF e.ev = "BeginBlock" THEN
    LET src == RewardSource(post.h, mon)
        names == AllRewardNames(pre, post) \cup UNION {{st.from : st \in SeqSet(src[v].stakes)} : v \in DOMAIN src}
    IN If(\E a \in names : Cum(post, a) # BAdd(Cum(pre, a), ExpectedIssue(a, e, src, pre.gov.rewardPerPower)),
          IF post.h <= 4 THEN "C13: early-height issuance differs from power x reward-per-power over the genesis stakes of the validators that signed"
          ELSE "C13: issuance differs from power x reward-per-power over the stakes (at the look-back height) of the validators that signed")
  ELSE IF IsTx(e) /\ e.tx.type = "withdraw" THEN
    LET a == e.tx.from  req == e.tx.payload.req IN
      If(e.resp.ok /\ BLt(Cum(pre, a), req), "C13: a withdrawal above the withdrawable reward succeeded")
      \cup If(e.resp.ok /\ BAdd(Cum(post, a), req) # Cum(pre, a), "C13: a withdrawal did not reduce the withdrawable reward by exactly the requested amount")
      \cup If(\E b \in AllRewardNames(pre, post) \ {a} : Cum(post, b) # Cum(pre, b), "C13: a withdrawal changed somebody else's reward")
      \cup If(~e.resp.ok /\ Cum(post, a) # Cum(pre, a), "C13: a failed withdrawal changed the withdrawable reward")
  ELSE IF e.ev \in {"DeliverTx", "EndBlock", "Commit", "Restart", "CheckTx"} THEN
      If(\E b \in AllRewardNames(pre, post) : Cum(post, b) # Cum(pre, b), "C13: a withdrawable reward changed outside issuance and withdrawal")
      \* what the block commits (and queries return) is the record block execution sees: issued minus withdrawn
      \cup (IF e.ev = "Commit" /\ "committed" \in DOMAIN e THEN
              If(\E b \in DOMAIN pre.rewards \cup DOMAIN e.committed.rewards :
                    b \notin DOMAIN e.committed.rewards \/ b \notin DOMAIN pre.rewards \/ e.committed.rewards[b].cum # pre.rewards[b].cum,
                 "C13: the withdrawable reward committed by the block is not everything issued minus everything withdrawn (a withdrawal or issuance was not persisted)")
            ELSE {})
  ELSE {}

---------------------------------------------------------------------------
(* C14 - slashing and downtime jailing *)

Cut(p, r) == (p * r) \div 100

RECURSIVE SlashStakes(_, _)
SlashStakes(s, r) ==    \* per stake: p - floor(p*r/100); a stake that cannot be reduced is forfeited
  IF s = <<>> THEN <<>>
  ELSE LET st == Head(s) IN
       (IF Cut(st.pow, r) < 1 THEN <<>> ELSE <<[st EXCEPT !.pow = st.pow - Cut(st.pow, r)]>>) \o SlashStakes(Tail(s), r)

RECURSIVE SlashAll(_, _, _)
SlashAll(delegs, evid, r) ==   \* apply the evidence list in order to the stakes of each named (known) delegatee
  IF evid = <<>> THEN delegs
  ELSE LET v == Head(evid).v IN
       SlashAll(IF v \in DOMAIN delegs
                  THEN [delegs EXCEPT ![v] = [@ EXCEPT !.stakes = SlashStakes(@, r)]]
                  ELSE delegs, Tail(evid), r)

MissCount(missed, lo, hi) == Cardinality({i \in 1..Len(missed) : missed[i] >= lo /\ missed[i] <= hi})

\* does validator v (present in `delegs` after slashing) get jailed at BeginBlock(H)?
Jailed(d, H, g) ==
  LET sh == H - 1
      lo == IF sh - g.signedBlocksWindow < 0 THEN 0 ELSE sh - g.signedBlocksWindow
      m  == IF d.missed # <<>> /\ d.missed[Len(d.missed)] >= sh THEN d.missed ELSE Append(d.missed, sh)
  IN g.signedBlocksWindow - MissCount(m, lo, sh) < g.minSignedBlocks

RECURSIVE SlashVoter(_, _, _)
SlashVoter(props, evid, r) ==
  IF evid = <<>> THEN props
  ELSE LET v == Head(evid).v
           One(p) ==
             IF v \notin DOMAIN p.voters THEN p
             ELSE LET w == p.voters[v]
                      cut == Cut(w.pow, r)
                      np  == w.pow - cut
                      rest == [x \in DOMAIN p.voters \ {v} |-> p.voters[x]]
                      vot == IF np <= 0 THEN rest ELSE [x \in DOMAIN p.voters |-> IF x = v THEN [w EXCEPT !.pow = np] ELSE p.voters[x]]
                      \* tally: the voter's old weight is taken out; the reduced weight is put back if the voter remains
                      opts == [i \in 1..Len(p.opts) |->
                                 IF w.choice = i - 1
                                   THEN [p.opts[i] EXCEPT !.votes = @ - w.pow + (IF np <= 0 THEN 0 ELSE np)]
                                   ELSE p.opts[i]]
                  IN [p EXCEPT !.voters = vot, !.opts = opts, !.total = p.total - cut, !.majority = ((p.total - cut) * 2) \div 3]
       IN SlashVoter([id \in DOMAIN props |-> One(props[id])], Tail(evid), r)

StakesNoRefund(s) == [i \in 1..Len(s) |-> [id |-> s[i].id, from |-> s[i].from, to |-> s[i].to, pow |-> s[i].pow]]

C14(e, pre, post, mon) ==
  IF e.ev = "BeginBlock" THEN
    LET g == pre.gov
        H == post.h
        slashed == SlashAll(pre.delegs, e.evidence, g.slashRatio)
        absent == {e.votes[i].v : i \in {j \in 1..Len(e.votes) : ~e.votes[j].signed}}
        jailed == {v \in absent \cap DOMAIN slashed : Jailed(slashed[v], H, g)}
        named == {e.evidence[i].v : i \in 1..Len(e.evidence)}
    IN If(\E d \in DOMAIN slashed \ jailed :
             d \notin DOMAIN post.delegs \/ StakesNoRefund(post.delegs[d].stakes) # StakesNoRefund(slashed[d].stakes),
          IF named \cap DOMAIN pre.delegs = {} THEN "C14: stakes of a validator changed at the beginning of a block without evidence against it"
          ELSE "C14: after evidence, the stakes are not exactly: offender's stakes cut by the slash percentage (rounded down, too small ones forfeited), everybody else untouched")
       \cup If(\E d \in DOMAIN post.delegs : d \notin DOMAIN slashed, "C14: a delegatee appeared at the beginning of a block")
       \cup If(\E v \in jailed : v \in DOMAIN post.delegs, "C14: a validator below the signing threshold stayed bonded")
       \cup If(\E v \in jailed : \E st \in SeqSet(slashed[v].stakes) :
                  ~\E f \in SeqSet(post.frozen) : f.id = st.id /\ f.from = st.from /\ f.to = v /\ f.pow = st.pow /\ f.refund = H + g.lazyRewardBlocks,
               "C14: a stake bonded to a jailed validator was not moved to unbonding in full")
       \cup If(Len(post.frozen) # Len(pre.frozen) + SumSet([v \in jailed |-> Len(slashed[v].stakes)], jailed),
               "C14: unbonding stakes changed at the beginning of a block other than by jailing")
       \cup If(post.props # SlashVoter(pre.props, e.evidence, g.slashRatio),
               "C14: open proposals are not exactly: the offender's voting weight (and the tallies) cut by the slash percentage, everything else untouched")
       \cup If(~SameAccts(pre, post), "C14: an account balance changed at the beginning of a block")
       \cup If(post.fprops # pre.fprops \/ post.gov # pre.gov, "C14: closed proposals or parameters changed at the beginning of a block")
  ELSE {}


\* The same judged on what really happened: `miss` holds, for every bonded validator, the heights it did not sign since its
\* record exists (folded over the recorded BeginBlock calls by the trace specification).  The record keeps only the marks
\* of the window in force when they were last trimmed; after governance ENLARGES the window, misses that are inside the
\* new window may be gone from the record.
C14True(e, pre, post, miss) ==
  IF e.ev = "BeginBlock" THEN
    LET g == pre.gov
        H == post.h
        sh == H - 1
        lo == IF sh - g.signedBlocksWindow < 0 THEN 0 ELSE sh - g.signedBlocksWindow
        slashed == SlashAll(pre.delegs, e.evidence, g.slashRatio)
        absent == {e.votes[i].v : i \in {j \in 1..Len(e.votes) : ~e.votes[j].signed}}
        Truth(v) == (IF v \in DOMAIN miss THEN miss[v] ELSE {}) \cup {sh}
        should == {v \in absent \cap DOMAIN slashed :
                     g.signedBlocksWindow - Cardinality({x \in Truth(v) : x >= lo /\ x <= sh}) < g.minSignedBlocks}
    IN If(\E v \in should : v \in DOMAIN post.delegs /\ ~Jailed(slashed[v], H, g),
          "C14: a validator whose signed blocks within the signing window are below the minimum stayed bonded: its record no longer holds all the misses inside the window")
  ELSE {}

---------------------------------------------------------------------------
(* C15 - governance *)

RECURSIVE TallyOK(_)
VotesFor(p, i) == SumSet([v \in DOMAIN p.voters |-> IF p.voters[v].choice = i - 1 THEN p.voters[v].pow ELSE 0], DOMAIN p.voters)
TallyOK(p) == \A i \in 1..Len(p.opts) : p.opts[i].votes = VotesFor(p, i)

MaxVotes(p) == IF p.opts = <<>> THEN 0 ELSE CHOOSE m \in {p.opts[i].votes : i \in 1..Len(p.opts)} : \A i \in 1..Len(p.opts) : p.opts[i].votes <= m

\* merge an option's fields over the active parameters: fields the option leaves unset keep their value
Merge(active, fields) == [f \in DOMAIN active |-> IF f \in DOMAIN fields THEN fields[f] ELSE active[f]]

C15(e, pre, post, mon) ==
  (IF e.ev \in {"BeginBlock", "DeliverTx", "EndBlock", "Commit", "Restart", "CheckTx"} THEN
      If(\E id \in DOMAIN post.props : ~TallyOK(post.props[id]),
         "C15: an option's tally is not the sum of the power of the voters whose latest choice it is")
      \cup If(e.ev # "Commit" /\ post.gov # pre.gov, "C15: active governance parameters changed outside a commit")
      \cup If(e.ev = "Commit" /\ post.gov # (IF pre.govPending.some THEN pre.govPending.v ELSE pre.gov),
              "C15: the parameters active after commit are not the previously active ones or the pending adopted ones")
      \cup If(e.ev = "Commit" /\ "committed" \in DOMAIN e /\ e.committed.gov # post.gov,
              "C15: the governance query differs from the active parameters")
      \cup If(e.ev # "EndBlock" /\ e.ev # "Commit" /\ post.govPending # pre.govPending, "C15: pending parameters changed outside the end of a block")
      \* the latest vote of a recorded voter stands (whatever happens to its power) until it votes again
      \cup If(e.ev # "DeliverTx"
               /\ \E id \in DOMAIN pre.props \cap DOMAIN post.props :
                    \E v \in DOMAIN pre.props[id].voters \cap DOMAIN post.props[id].voters :
                       post.props[id].voters[v].choice # pre.props[id].voters[v].choice,
              "C15: the recorded choice of a voter changed without a vote of that voter")
   ELSE {})
  \cup
  (IF IsTx(e) /\ e.resp.ok /\ e.tx.type = "proposal" THEN
      LET tx == e.tx  pl == tx.payload  id == tx.hash  g == pre.gov IN
        If(tx.from \notin DOMAIN mon.cons, "C15: a proposal by an account that is not a current validator was accepted")
        \cup If(~(pl.start > post.h /\ pl.period >= g.minVotingPeriodBlocks /\ pl.period <= g.maxVotingPeriodBlocks
                  /\ pl.apply >= pl.start + pl.period + g.lazyApplyingBlocks /\ Len(pl.opts) >= 1),
                "C15: a proposal with invalid start / period / applying height or without options was accepted")
        \cup If(id \in DOMAIN pre.props, "C15: a duplicate proposal was accepted")
        \cup If(id \notin DOMAIN post.props, "C15: an accepted proposal was not recorded")
        \cup (IF id \in DOMAIN post.props THEN
                LET p == post.props[id] IN
                If(DOMAIN p.voters # DOMAIN mon.cons \/ \E v \in DOMAIN p.voters \cap DOMAIN mon.cons : p.voters[v].pow # mon.cons[v] \/ p.voters[v].choice # -1,
                   "C15: the recorded voters are not the current validators with their current power")
                \cup If(p.total # SumSet(mon.cons, DOMAIN mon.cons) \/ p.majority # (p.total * 2) \div 3,
                        "C15: recorded voting power / two-thirds threshold is wrong")
                \cup If(p.start # pl.start \/ p.end # pl.start + pl.period \/ p.apply # pl.apply, "C15: recorded window differs from the proposal")
              ELSE {})
        \cup If(\E o \in DOMAIN pre.props : o # id /\ (o \notin DOMAIN post.props \/ post.props[o] # pre.props[o]), "C15: a proposal changed another proposal")
   ELSE {})
  \cup
  (IF IsTx(e) /\ e.resp.ok /\ e.tx.type = "voting" THEN
      LET tx == e.tx  id == tx.payload.prop  c == tx.payload.choice IN
        IF id \notin DOMAIN pre.props THEN {"C15: a vote on an unknown or closed proposal was accepted"}
        ELSE LET p == pre.props[id] IN
          If(tx.from \notin DOMAIN p.voters, "C15: a vote by an account that is not a recorded voter was accepted")
          \cup If(c < 0 \/ c >= Len(p.opts), "C15: a vote for a non-existent option was accepted")
          \cup If(post.h < p.start \/ post.h > p.end, "C15: a vote outside the voting window was accepted")
          \cup If(id \notin DOMAIN post.props, "C15: voting removed the proposal")
          \cup (IF id \in DOMAIN post.props /\ tx.from \in DOMAIN p.voters THEN
                  LET q == post.props[id] IN
                  If(DOMAIN q.voters # DOMAIN p.voters
                       \/ \E v \in DOMAIN p.voters \cap DOMAIN q.voters :
                            q.voters[v].pow # p.voters[v].pow \/ (v # tx.from /\ q.voters[v].choice # p.voters[v].choice) \/ (v = tx.from /\ q.voters[v].choice # c),
                     "C15: after a vote the voters are not: the sender's choice replaced, everybody else (and all powers) unchanged")
                  \cup If(q.total # p.total \/ q.majority # p.majority \/ q.start # p.start \/ q.end # p.end \/ q.apply # p.apply, "C15: a vote changed the proposal's header")
                ELSE {})
          \cup If(\E o \in DOMAIN pre.props : o # id /\ (o \notin DOMAIN post.props \/ post.props[o] # pre.props[o]), "C15: a vote changed another proposal")
   ELSE {})
  \cup
  (IF IsTx(e) /\ e.resp.ok /\ e.tx.type \notin {"proposal", "voting"} THEN
      If(post.props # pre.props \/ post.fprops # pre.fprops, "C15: a non-governance transaction changed a proposal")
   ELSE {})
  \cup
  \* a recorded voter may vote (with the power recorded at submission) whatever became of it since
  (IF IsTx(e) /\ ~e.resp.ok /\ e.tx.type = "voting" /\ e.tx.payload.prop \in DOMAIN pre.props THEN
      LET tx == e.tx  p == pre.props[tx.payload.prop] IN
      If(/\ tx.auth = "valid" /\ tx.nonce = Nonce(pre, tx.from) /\ tx.to = "zero" /\ tx.fromLen = 20 /\ tx.toLen = 20 /\ tx.amount = <<>>
         /\ tx.gasPrice = pre.gov.gasPrice /\ ~BLt(Fee(tx, pre.gov), BMul(pre.gov.minTrxGas, pre.gov.gasPrice))
         /\ BLeq(tx.gas, <<807, 775, 854, 36, 372, 223, 9>>) /\ BLeq(Fee(tx, pre.gov), Bal(pre, tx.from))
         /\ tx.from \in DOMAIN p.voters /\ tx.payload.choice >= 0 /\ tx.payload.choice < Len(p.opts)
         /\ post.h >= p.start /\ post.h <= p.end,
         "C15: the well-formed vote of a recorded voter inside the voting window was refused")
   ELSE {})
  \cup
  (IF IsTx(e) /\ ~e.resp.ok /\ e.tx.type \in {"proposal", "voting"} THEN
      If(post.props # pre.props \/ post.fprops # pre.fprops,
         "C15: a refused vote or proposal changed a proposal (the latest accepted vote of each voter must stand)")
   ELSE {})
  \cup
  (IF e.ev = "EndBlock" THEN
      LET h == post.h
          closed == {id \in DOMAIN pre.props : id \notin DOMAIN post.props}
          adopted == {id \in DOMAIN post.fprops : id \notin DOMAIN pre.fprops}
          applied == {id \in DOMAIN pre.fprops : id \notin DOMAIN post.fprops}
          \* the tallies when voting closed: as committed by the previous block (evidence processed at the beginning of
          \* the settling block comes after the close and does not count)
          Tal(id) == IF id \in DOMAIN mon.propsC THEN {mon.propsC[id]} ELSE {pre.props[id]}
      IN If(\E id \in closed : pre.props[id].end >= h, "C15: a proposal was closed while its voting window was still open")
         \cup If(\E id \in adopted : id \notin closed, "C15: a proposal was adopted that was not in voting")
         \cup If(\E id \in adopted : ~\E p \in Tal(id) : MaxVotes(p) >= (p.total * 2) \div 3,
                 "C15: a proposal was adopted although no option held two thirds of the recorded voting power")
         \cup If(\E id \in adopted : ~post.fprops[id].major.some \/ ~\E p \in Tal(id) : post.fprops[id].major.v.votes = MaxVotes(p),
                 "C15: the adopted option is not the one with the most votes")
         \cup If(\E id \in applied : pre.fprops[id].apply > h, "C15: an adopted proposal was applied before its applying height")
         \cup If(\E id \in DOMAIN pre.props \cap DOMAIN post.props : pre.props[id] # post.props[id], "C15: an open proposal changed at the end of a block")
         \* the winning parameters take effect: an adopted parameter proposal (type 257) that is applied leaves parameters pending
         \cup If((\E id \in applied : pre.fprops[id].optType = 257 /\ pre.fprops[id].major.some) /\ ~post.govPending.some,
                 "C15: an adopted parameter proposal was applied but no parameters are pending for the commit")
         \cup (IF post.govPending # pre.govPending THEN
                 If(~post.govPending.some, "C15: pending parameters vanished at the end of a block")
                 \cup If(post.govPending.some /\ ~\E id \in applied :
                            /\ pre.fprops[id].major.some
                            /\ pre.fprops[id].major.v.doc \in DOMAIN mon.docs
                            /\ post.govPending.v = Merge(pre.gov, mon.docs[pre.fprops[id].major.v.doc]),
                         "C15: new parameters are not an adopted option merged over the active parameters (unset fields keep their value)")
               ELSE {})
   ELSE {})

---------------------------------------------------------------------------
(* C19 - queries *)

NoDeleg == [self |-> -1]
Render(path, key, snap) ==
  CASE path = "account"    -> [ok |-> TRUE, v |-> IF key \in DOMAIN snap.accts THEN snap.accts[key] ELSE EmptyAcct]
    [] path = "delegatee"  -> IF key \in DOMAIN snap.delegs THEN [ok |-> TRUE, v |-> snap.delegs[key]] ELSE [ok |-> FALSE]
    [] path = "reward"     -> IF key \in DOMAIN snap.rewards THEN [ok |-> TRUE, v |-> snap.rewards[key]] ELSE [ok |-> FALSE]
    [] path = "gov_params" -> IF snap.govLedger.some THEN [ok |-> TRUE, v |-> snap.govLedger.v] ELSE [ok |-> FALSE]
    [] path = "stakes/total_power" -> [ok |-> TRUE, v |-> BondedPower(snap)]
    [] path = "proposal" ->
         IF key = "all" THEN [ok |-> TRUE, v |-> [props |-> snap.props, fprops |-> snap.fprops]]
         ELSE IF key \in DOMAIN snap.props THEN [ok |-> TRUE, v |-> [status |-> "voting", prop |-> snap.props[key]]]
         ELSE IF key \in DOMAIN snap.fprops THEN [ok |-> TRUE, v |-> [status |-> "frozen", prop |-> snap.fprops[key]]]
         ELSE [ok |-> FALSE]
    [] OTHER -> [ok |-> FALSE]

Judged == {"account", "delegatee", "reward", "gov_params", "stakes/total_power", "proposal"}

\* serving a query never alters the consensus state (digest of the full projection before = after)
QueryReadOnly(e) ==
  IF e.ev = "Query" /\ "stateSame" \in DOMAIN e /\ ~e.stateSame
  THEN {IF e.path = "vm_call" THEN "C17: a read-only contract call changed state" ELSE "C19: serving a query changed the state"}
  ELSE {}

C19(e, mon) ==
  IF e.ev = "Query" /\ e.path \in Judged /\ e.panic = "" THEN
    LET hh == IF e.qh = 0 THEN e.lastH ELSE e.qh
        k  == <<e.path, e.key, hh>>
    IN (IF hh >= 1 /\ hh <= e.lastH /\ hh \in DOMAIN mon.views THEN
          LET want == Render(e.path, e.key, mon.views[hh]) IN
          If(want.ok # e.resp.parsed.ok, "C19: a query reports presence/absence differently from the state committed at that height")
          \cup If(want.ok /\ e.resp.parsed.ok /\ want.v # e.resp.parsed.v, "C19: a query answer differs from the state committed at the requested height")
        ELSE {})
       \cup If(hh > e.lastH /\ e.resp.code = 0 /\ e.qh > 0, "C19: a query for a height beyond the latest block was answered")
       \cup If(k \in DOMAIN mon.answers /\ mon.answers[k] # e.resp.raw, "C19: the answer for a past height changed")
  ELSE {}

\* at Commit: what queries return for the new height is exactly the consensus view at the end of the block
\* the previous height asked again right after one more block was committed (before anything else is asked)
C19Again(e, mon) ==
  IF e.ev = "Commit" /\ "recommitted" \in DOMAIN e /\ e.recommitted.h \in DOMAIN mon.snaps
  THEN LET a == e.recommitted  b == mon.snaps[e.recommitted.h]
           \* (the digests of the raw answers: for the keys asked the first time; addresses that became known since are
           \* asked in addition)
           fs == {f \in (DOMAIN a \cap DOMAIN b) \ {"raw"} : a[f] # b[f]}
                 \cup (IF "raw" \in DOMAIN a \cap DOMAIN b /\ \E k \in DOMAIN b.raw : k \notin DOMAIN a.raw \/ a.raw[k] # b.raw[k]
                       THEN {"raw"} ELSE {}) IN
       If(fs # {} \/ DOMAIN a # DOMAIN b,
          "C19: the answers for the previous height changed when one more block was committed")
  ELSE {}

\* the governance query for the height just committed returns the parameters in force from that commit on (what the
\* block committed: the previously active ones, or the adopted ones it applied)
C19Gov(e, post) ==
  IF e.ev = "Commit" /\ "committed" \in DOMAIN e
  THEN If(e.committed.gov # post.gov, "C19: the governance query for the height just committed does not return the parameters that block committed")
  ELSE {}

C19Commit(e, pre) ==
  IF e.ev = "Commit" /\ "committed" \in DOMAIN e THEN
    LET c == e.committed IN
      If(\E a \in LiveAccts(pre) : a \notin DOMAIN c.accts \/ c.accts[a] # pre.accts[a], "C19: an account committed by the block is not what queries return for that height")
      \cup If(\E a \in DOMAIN c.accts : a \notin LiveAccts(pre), "C19: queries return an account the block did not commit")
      \cup If(c.delegs # pre.delegs, "C19: delegatees returned by queries differ from what the block committed")
      \cup If(c.rewards # pre.rewards, "C19: rewards returned by queries differ from what the block committed")
      \cup If(c.props # pre.props \/ c.fprops # pre.fprops, "C19: proposals returned by queries differ from what the block committed")
      \* the stakes of every owner, asked for owner by owner (another handler: it walks all delegatees)
      \cup (IF "stakesOf" \in DOMAIN c /\ c.stakesOf # <<>> THEN
              LET owners == {st.from : st \in AllStakes(pre)} IN
              If(\E a \in owners : a \notin DOMAIN c.stakesOf \/ SeqSet(c.stakesOf[a]) # {st \in AllStakes(pre) : st.from = a},
                 "C19: the stakes query of an owner does not return exactly the stakes the block committed for that owner")
              \cup If(\E a \in DOMAIN c.stakesOf : a \notin owners, "C19: the stakes query returns stakes for an owner that has none")
            ELSE {})
      \cup If("propsH" \in DOMAIN c /\ (c.propsH # pre.props \/ c.fpropsH # pre.fprops),
              "C19: a proposal the block committed is not (or not identically) returned by the query for its transaction hash")
  ELSE {}

---------------------------------------------------------------------------
(* C17 - contract execution = reference EVM over the native ledger.          *)
(* e.ref is the outcome of the reference run recorded next to the real one:  *)
(* the same interpreter on a plain state DB seeded with every native         *)
(* account's balance and nonce, block context and message built              *)
(* independently from the header and the transaction.  A transaction the     *)
(* reference fails has no effect at all in rigo-go (C04/C05).                *)

\* the transaction passes the native admission rules (signature, price, minimum fee, nonce: C03, C04, C16);
\* only then is it handed to the EVM at all
Admissible(e, pre) ==
  /\ e.tx.auth = "valid" /\ e.tx.gasPrice = pre.gov.gasPrice /\ e.tx.nonce = Nonce(pre, e.tx.from)
  /\ ~BLt(Fee(e.tx, pre.gov), BMul(pre.gov.minTrxGas, pre.gov.gasPrice))

C17(e, pre, post) ==
  IF IsTx(e) /\ "ref" \in DOMAIN e /\ Admissible(e, pre) THEN
    LET r == e.ref  ok == e.resp.ok IN
      If(ok # r.ok, "C17: success / failure differs from the reference EVM")
      \cup If(ok /\ r.ok /\ e.resp.gasUsed # r.gasUsed, "C17: gas used differs from the reference EVM")
      \cup If(ok /\ r.ok /\ ~r.create /\ e.resp.data # r.ret, "C17: return data differs from the reference EVM")
      \cup If(~ok /\ ~r.ok /\ r.retLen > 0 /\ e.resp.data # r.ret, "C17: revert data differs from the reference EVM")
      \cup If(ok /\ r.ok /\ r.implLogs # r.logs, "C17: emitted logs differ from the reference EVM")
      \cup If(ok /\ r.ok /\ \E a \in DOMAIN r.bal : Bal(post, a) # r.bal[a],
              "C17: a native balance after the transaction differs from the EVM's result")
      \cup If(ok /\ r.ok /\ \E a \in DOMAIN r.nonce : Nonce(post, a) # r.nonce[a],
              "C17: a native nonce after the transaction differs from the EVM's result")
      \cup If(ok /\ r.ok /\ \E a \in DOMAIN post.accts : a \notin DOMAIN r.bal /\ Acct(post, a) # Acct(pre, a),
              "C17: an account the reference EVM did not touch changed")
      \cup If(ok /\ r.ok /\ HasEvm(post) /\ \E c \in DOMAIN r.evm \cup DOMAIN post.evm :
                 c \notin DOMAIN r.evm \/ c \notin DOMAIN post.evm \/ post.evm[c].code # r.evm[c].code \/ post.evm[c].storage # r.evm[c].storage,
              "C17: contract code or storage after the transaction differs from the reference EVM")
  ELSE {}

(* The bridge protocol on the recorded operation stream of the state-DB      *)
(* wrapper (EvmOp hook), following EvmBridge.tla: an account is synced in    *)
(* with tag = id of the last snapshot + 1; RevertToSnapshot(id) forgets      *)
(* exactly the accounts whose tag exceeds id; the interpreter touches        *)
(* balances and nonces of synced accounts only; Finish writes back exactly   *)
(* the synced accounts, and with their sync-in values when the transaction   *)
(* was reverted to its first snapshot.                                       *)

BridgeInit == [synced |-> [x \in {} |-> 0], vals |-> [x \in {} |-> 0], lastSnap |-> -1, top |-> -1, pending |-> {}, wb |-> {},
               failed |-> FALSE, bad |-> {}]

Touching == {"SubBalance", "AddBalance", "SetNonce", "GetBalance", "GetNonce", "CreateAccount", "Suicide"}

BridgeStep(st, o) ==
  LET st0 == IF o.op # "UnSync" /\ st.pending # {}
               THEN [st EXCEPT !.bad = @ \cup {"C17: a revert did not forget every account that was synced after the snapshot"}, !.pending = {}]
               ELSE st
  IN
  CASE o.op = "Snapshot" ->
         [st0 EXCEPT !.lastSnap = o.n,
                     !.bad = @ \cup (IF o.n <= st0.lastSnap /\ st0.lastSnap >= 0 /\ st0.top >= 0 THEN {"C17: snapshot ids do not increase"} ELSE {})]
    [] o.op = "Prepare" -> [st0 EXCEPT !.lastSnap = o.n, !.top = o.n]
    [] o.op = "SyncIn" ->
         [st0 EXCEPT !.synced = [x \in DOMAIN @ \cup {o.a} |-> IF x = o.a THEN o.tag ELSE @[x]],
                     !.vals = [x \in DOMAIN @ \cup {o.a} |-> IF x = o.a THEN [n |-> o.n, amt |-> o.amt] ELSE @[x]],
                     !.bad = @ \cup (IF o.a \in DOMAIN st0.synced THEN {"C17: an account was synced in twice"} ELSE {})
                               \cup (IF o.tag # st0.lastSnap + 1 THEN {"C17: a sync-in is not tagged with the snapshot after the last one taken"} ELSE {})]
    [] o.op \in Touching ->
         [st0 EXCEPT !.bad = @ \cup (IF o.a \notin DOMAIN st0.synced /\ ~(o.op = "AddBalance" /\ o.amt = <<>>)
                                       THEN {"C17: the interpreter touched balance or nonce of an account that is not synced with the native ledger (stale copy)"} ELSE {})]
    [] o.op = "RevertToSnapshot" ->
         [st0 EXCEPT !.pending = {a \in DOMAIN st0.synced : st0.synced[a] > o.n},
                     !.failed = @ \/ o.n = st0.top]
    [] o.op = "UnSync" ->
         [st0 EXCEPT !.synced = [x \in DOMAIN @ \ {o.a} |-> @[x]],
                     !.pending = @ \ {o.a},
                     !.bad = @ \cup (IF o.a \notin st0.pending THEN {"C17: a revert forgot an account that was synced before the snapshot"} ELSE {})]
    [] o.op = "WriteBack" ->
         [st0 EXCEPT !.wb = @ \cup {o.a},
                     !.bad = @ \cup (IF o.a \notin DOMAIN st0.synced THEN {"C17: an account that was not synced was written back to the native ledger"} ELSE {})
                               \cup (IF st0.failed /\ o.a \in DOMAIN st0.vals /\ (st0.vals[o.a].n # o.n \/ st0.vals[o.a].amt # o.amt)
                                       THEN {"C17: a failed transaction wrote a changed balance or nonce back to the native ledger"} ELSE {})]
    [] o.op = "Finish" ->
         [st0 EXCEPT !.bad = @ \cup (IF st0.wb # DOMAIN st0.synced THEN {"C17: Finish did not write back exactly the synced accounts"} ELSE {})]
    [] OTHER -> st0

RECURSIVE BridgeFold(_, _, _)
BridgeFold(ops, i, st) == IF i > Len(ops) THEN st ELSE BridgeFold(ops, i + 1, BridgeStep(st, ops[i]))

C17Bridge(e) == IF e.ev = "DeliverTx" /\ "bridge" \in DOMAIN e THEN BridgeFold(e.bridge, 1, BridgeInit).bad ELSE {}

---------------------------------------------------------------------------
(* C07 - restart (single-replica part: the restarted process reports the    *)
(* last commit and has rebuilt every piece of state that influences         *)
(* execution; the two-replica comparison is ReplicasTrace.tla)              *)

PowSet(l) == {<<l[i].v, l[i].pow>> : i \in 1..Len(l)}

C07(e, pre, post, mon) ==
  IF e.ev = "Restart" THEN
      If(e.resp.h # pre.lastH \/ e.resp.hash # mon.lastHash, "C07: after a restart the node does not report the height and application hash of its last commit")
      \cup If(~SameAccts(pre, post) \/ pre.delegs # post.delegs \/ pre.frozen # post.frozen \/ pre.rewards # post.rewards
                \/ pre.props # post.props \/ pre.fprops # post.fprops,
              "C07: ledger contents visible to block execution differ after a restart (something was only in memory)")
      \cup If(pre.gov # post.gov, "C07: the active governance parameters differ after a restart")
      \cup If(PowSet(pre.vol.lastVals) # PowSet(post.vol.lastVals), "C07: the validator set last reported to consensus is not rebuilt after a restart")
      \cup If(pre.vol.rwdHash # post.vol.rwdHash \/ pre.vol.evmRoot # post.vol.evmRoot \/ pre.vol.evmHeight # post.vol.evmHeight,
              "C07: reward-hash component or EVM root/height differ after a restart")
  ELSE {}

---------------------------------------------------------------------------
(* C06 - a mempool check works on a scratch view: nothing block execution reads may change *)

C06(e, pre, post) ==
  IF e.ev = "CheckTx" THEN
      If(pre.accts # post.accts \/ pre.delegs # post.delegs \/ pre.frozen # post.frozen \/ pre.rewards # post.rewards
           \/ pre.props # post.props \/ pre.fprops # post.fprops,
         "C06: a mempool check changed ledger contents visible to block execution")
      \cup If(pre.gov # post.gov \/ pre.govPending # post.govPending \/ pre.govLedger # post.govLedger \/ pre.feeSum # post.feeSum,
              "C06: a mempool check changed governance parameters or the block's fee total")
      \cup If(pre.vol.limiter # post.vol.limiter \/ pre.vol.lastVals # post.vol.lastVals,
              "C06: a mempool check consumed the block's stake-change limits or changed the reported validator set")
      \cup If(HasEvm(pre) /\ HasEvm(post) /\ pre.evm # post.evm, "C06: a mempool check changed contract code or storage")
      \cup If("evmSynced" \in DOMAIN pre.vol /\ "evmSynced" \in DOMAIN post.vol /\ pre.vol.evmSynced # post.vol.evmSynced,
              "C06: a mempool check left accounts marked as copied into the EVM state of the block")
  ELSE {}

---------------------------------------------------------------------------
(* C09 - no panic *)

C09(e) ==
  If("panic" \in DOMAIN e /\ e.panic # "", "C09: the application panicked in " \o e.ev)
  \cup If("projPanic" \in DOMAIN e, "C09: the application state is unreadable after " \o e.ev)

\* Bytes the signature does not cover (a payload attached to a transaction type that has none) are not executed either:
\* the delivered bytes do exactly what the signed transaction does.  e.ref is the reference run of the SIGNED transaction
\* (e.ignoredBytes: the driver made the delivered bytes from a signed transaction by changing only such bytes).
C03Ignored(e, pre, post) ==
  IF IsTx(e) /\ "ignoredBytes" \in DOMAIN e THEN
     If(~e.resp.ok, "C03: a signed transaction was refused because of bytes its type does not have")
     \cup If("ref" \in DOMAIN e /\ C17(e, pre, post) # {},
             "C03: bytes that the signature does not cover changed what the transaction did")
  ELSE {}

=============================================================================
