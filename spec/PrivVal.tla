------------------------------ MODULE PrivVal ------------------------------
(***************************************************************************)
(* The file-backed validator signer of rigo-go (types/crypto/sfile_pv.go), *)
(* property C20.  One request = SignVote / SignProposal.  A fresh          *)
(* signature is produced in two steps (Persist, then Release) so that a    *)
(* process crash can fall between making the last-sign record durable and  *)
(* handing the signature out.                                              *)
(*                                                                         *)
(* A "message" is [h, r, s, bid]; the timestamp ts is kept apart because   *)
(* two requests that differ only in ts are the same vote for the signer.   *)
(* Signatures are deterministic (RFC 6979), so a signature is represented  *)
(* by what was signed: [msg, ts].                                          *)
(***************************************************************************)
EXTENDS Integers, Sequences, FiniteSets, TLC

CONSTANTS
  \* @type: Set(Int);
  Heights,
  \* @type: Set(Int);
  Rounds,
  \* @type: Set(Int);
  Bids,
  \* @type: Set(Int);
  Stamps
Steps == {1, 2, 3}                         \* propose, prevote, precommit

NoMsg == [h |-> 0, r |-> 0, s |-> 0, bid |-> 0]
NoRec == [msg |-> NoMsg, ts |-> 0, signed |-> FALSE]   \* state file after key generation

VARIABLES
  \* the last-sign record in the state file: [msg, ts, signed]
  \* @type: { msg: { h: Int, r: Int, s: Int, bid: Int }, ts: Int, signed: Bool };
  disk,
  \* the copy held by the running process
  \* @type: { msg: { h: Int, r: Int, s: Int, bid: Int }, ts: Int, signed: Bool };
  mem,
  \* process is running
  \* @type: Bool;
  up,
  \* a fresh signature persisted but not yet released, or NoRec
  \* @type: { msg: { h: Int, r: Int, s: Int, bid: Int }, ts: Int, signed: Bool };
  pend,
  \* history: set of [msg, ts] whose signature has been handed out
  \* @type: Set({ msg: { h: Int, r: Int, s: Int, bid: Int }, ts: Int });
  released,
  \* the last request and its result (observation)
  \* @type: { req: { h: Int, r: Int, s: Int, bid: Int }, ts: Int, res: Str, sig: { msg: { h: Int, r: Int, s: Int, bid: Int }, ts: Int, signed: Bool } };
  last

vars == <<disk, mem, up, pend, released, last>>

\* @type: ({ h: Int, r: Int, s: Int, bid: Int }) => <<Int, Int, Int>>;
HRS(m) == <<m.h, m.r, m.s>>
\* @type: (<<Int, Int, Int>>, <<Int, Int, Int>>) => Bool;
Less(a, b) == \/ a[1] < b[1]
              \/ a[1] = b[1] /\ a[2] < b[2]
              \/ a[1] = b[1] /\ a[2] = b[2] /\ a[3] < b[3]
\* @type: (<<Int, Int, Int>>, <<Int, Int, Int>>) => Bool;
Leq(a, b) == a = b \/ Less(a, b)

Requests == [h : Heights, r : Rounds, s : Steps, bid : Bids] \X Stamps

Init ==
  /\ disk = NoRec /\ mem = NoRec /\ up = TRUE /\ pend = NoRec
  /\ released = {}
  /\ last = [req |-> NoMsg, ts |-> 0, res |-> "init", sig |-> NoRec]

(* CheckHRS of the code: regression is an error; the same HRS is a replay   *)
(* (only possible if something was signed at that HRS)                      *)
Regress(m) == Less(HRS(m), HRS(mem.msg))
SameHRS(m) == HRS(m) = HRS(mem.msg)

\* request answered from the stored record, or refused; no state change
Answer(m, ts) ==
  /\ up /\ pend = NoRec
  /\ Regress(m) \/ SameHRS(m)
  /\ LET res == IF Regress(m) THEN "regression"
                ELSE IF ~mem.signed THEN "nosignbytes"
                ELSE IF m = mem.msg THEN "ok"      \* identical, or differing only in the timestamp
                ELSE "conflict"
     IN /\ last' = [req |-> m, ts |-> ts, res |-> res,
                    sig |-> IF res = "ok" THEN [msg |-> mem.msg, ts |-> mem.ts, signed |-> TRUE] ELSE NoRec]
        /\ released' = IF res = "ok" THEN released \cup {[msg |-> mem.msg, ts |-> mem.ts]} ELSE released
  /\ UNCHANGED <<disk, mem, up, pend>>

\* fresh signature, step 1: sign and make the record durable
Persist(m, ts) ==
  /\ up /\ pend = NoRec
  /\ Less(HRS(mem.msg), HRS(m))
  /\ LET rec == [msg |-> m, ts |-> ts, signed |-> TRUE] IN
     /\ disk' = rec /\ mem' = rec /\ pend' = rec
  /\ last' = [req |-> m, ts |-> ts, res |-> "persisted", sig |-> NoRec]
  /\ UNCHANGED <<up, released>>

\* fresh signature, step 2: hand it to the caller
Release ==
  /\ up /\ pend # NoRec
  /\ released' = released \cup {[msg |-> pend.msg, ts |-> pend.ts]}
  /\ last' = [req |-> pend.msg, ts |-> pend.ts, res |-> "ok", sig |-> pend]
  /\ pend' = NoRec
  /\ UNCHANGED <<disk, mem, up>>

Crash ==
  /\ up
  /\ up' = FALSE /\ pend' = NoRec /\ mem' = NoRec
  /\ last' = [req |-> NoMsg, ts |-> 0, res |-> "crash", sig |-> NoRec]
  /\ UNCHANGED <<disk, released>>

\* LoadSFilePV: the process comes (back) up with the state file's record
Reload ==
  /\ pend = NoRec
  /\ up' = TRUE /\ mem' = disk
  /\ last' = [req |-> NoMsg, ts |-> 0, res |-> "reload", sig |-> NoRec]
  /\ UNCHANGED <<disk, pend, released>>

Next ==
  \/ \E q \in Requests : Answer(q[1], q[2]) \/ Persist(q[1], q[2])
  \/ Release \/ Crash \/ Reload

Spec == Init /\ [][Next]_vars

---------------------------------------------------------------------------
(* C20 *)

\* never two different votes/proposals for one height/round/step; a repeated
\* request gets the original signature (same message AND same timestamp)
NoDoubleSign ==
  \A x, y \in released : HRS(x.msg) = HRS(y.msg) => x = y

\* the durable record is never behind a released signature
PersistBeforeRelease ==
  \A x \in released : Leq(HRS(x.msg), HRS(disk.msg))

\* a signature that was not released before is only released for an HRS
\* strictly above everything released so far
Monotone ==
  [][\A x \in released' \ released : \A y \in released : Less(HRS(y.msg), HRS(x.msg))]_vars

\* the same message again (or one differing only in timestamp), with nothing
\* signed in between, returns the original signature
ReplayReturnsOriginal ==
  [][last'.res \in {"ok", "conflict", "regression", "nosignbytes"} /\ up /\ pend = NoRec /\ mem.signed /\ last'.req = mem.msg
       => last'.res = "ok" /\ last'.sig.msg = mem.msg /\ last'.sig.ts = mem.ts]_vars

TypeOK == /\ up \in BOOLEAN
          /\ disk.signed \in BOOLEAN /\ mem.signed \in BOOLEAN
=============================================================================
