SPECIFICATION ConfSpec
POSTCONDITION ConfReport
CHECK_DEADLOCK FALSE
