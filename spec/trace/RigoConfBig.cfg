SPECIFICATION ConfSpec
POSTCONDITION ConfReport
CHECK_DEADLOCK FALSE
CONSTANT UnitLimbs <- BigUnitLimbs
