SPECIFICATION TraceSpec
CONSTANTS
  Heights = {1}
  Rounds = {0}
  Bids = {0}
  Stamps = {1}
POSTCONDITION Report
CHECK_DEADLOCK FALSE
