------------------------------ MODULE RigoTrace ------------------------------
(***************************************************************************)
(* Trace validation of the application (single replica).  trace.ndjson is  *)
(* a concatenation of traces recorded by the Go driver from the REAL       *)
(* node.RigoApp: one line per ABCI call with the abstract request, the     *)
(* response and the projection of the application state after the call.    *)
(* A Genesis line starts a new trace.                                      *)
(*                                                                         *)
(* For every line the predicates of RigoProps.tla are evaluated on the     *)
(* recorded pre-state (the previous line's projection), the recorded call  *)
(* and the recorded post-state, with history monitors (RigoMon.tla) folded *)
(* over the recorded values.  Violated clauses are collected (register 1)  *)
(* so that the whole file is examined; register 2 is the high-water mark.  *)
(***************************************************************************)
EXTENDS RigoMon, Json, TLC

TraceLog == ndJsonDeserialize("trace.ndjson")

VARIABLES l, pre, mon, viol, seen, miss
tvars == <<l, pre, mon, viol, seen, miss>>

\* miss: validator -> set of heights it did not sign while its delegatee record existed (see RigoProps!C14True)
NoMiss == [x \in {} |-> {}]
MissAfter(e, old) ==
  IF e.ev = "BeginBlock" /\ "post" \in DOMAIN e THEN
     LET absent == {e.votes[i].v : i \in {j \in 1..Len(e.votes) : ~e.votes[j].signed}}
         keep == DOMAIN e.post.delegs
     IN [v \in keep |-> (IF v \in DOMAIN old THEN old[v] ELSE {}) \cup (IF v \in absent THEN {e.post.h - 1} ELSE {})]
  \* a record that disappears (released, jailed) takes its history with it, also in the middle of a block
  ELSE IF "post" \in DOMAIN e /\ "delegs" \in DOMAIN e.post THEN [v \in DOMAIN old \cap DOMAIN e.post.delegs |-> old[v]]
  ELSE old

NoState == [h |-> 0]

TraceInit == l = 1 /\ pre = NoState /\ mon = InitMon /\ viol = <<>> /\ seen = {} /\ miss = NoMiss

HasPost(e) == "post" \in DOMAIN e

Record(e, cs) == IF cs = {} THEN viol ELSE Append(viol, [line |-> l, trace |-> mon.trace, ev |-> e.ev, what |-> cs])

TraceNext ==
  /\ l <= Len(TraceLog)
  /\ l' = l + 1
  /\ LET e == TraceLog[l] IN
     /\ IF e.ev = "Genesis" THEN
           /\ pre' = e.post /\ mon' = GenesisMon(e, mon.trace + 1)
           /\ viol' = Record(e, C11State(e.post))
        ELSE IF mon.dead THEN UNCHANGED <<pre, mon, viol>>
        ELSE IF e.ev \in StateEvents /\ HasPost(e) /\ ~Sane(e.post) THEN
           \* a power or height outside the range the consensus engine accepts (rendered as -1): nothing else can be judged
           /\ viol' = Record(e, {"C11: a stake or delegatee has a power outside the range of valid voting powers (> 2^31/100 in this harness, or negative)",
                                 "C02: a stake or delegatee has a power outside the range of valid voting powers"} \cup C09(e))
           /\ mon' = [mon EXCEPT !.dead = TRUE]
           /\ pre' = pre
        ELSE IF e.ev \in StateEvents /\ HasPost(e) THEN
           /\ viol' = Record(e, Checks(e, pre, e.post, mon) \cup C14True(e, pre, e.post, miss) \cup C09(e))
           /\ mon' = NextMon(e, pre, e.post, mon)
           /\ pre' = e.post
        ELSE IF e.ev = "Query" THEN
           /\ viol' = Record(e, C19(e, mon) \cup QueryReadOnly(e) \cup C09(e))
           /\ mon' = QueryMon(e, mon)
           /\ pre' = pre
        ELSE
           \* an event without a projection: the replica died (panic) or an Info / ConsensusReject / Note line
           /\ viol' = Record(e, C09(e) \cup If(e.ev = "ConsensusReject" /\ e.what # "validator set would become empty",
                                             "C10: the consensus engine rejects the validator updates: " \o e.what))
           /\ mon' = IF e.ev \in StateEvents THEN [mon EXCEPT !.dead = TRUE] ELSE mon
           /\ pre' = pre
     /\ miss' = IF e.ev = "Genesis" THEN NoMiss ELSE IF mon.dead THEN miss ELSE MissAfter(e, miss)
     /\ seen' = IF e.ev \in StateEvents /\ HasPost(e) /\ e.ev # "Genesis" /\ ~mon.dead /\ Sane(e.post) /\ pre # NoState
                   THEN seen \cup Witness(e, pre, e.post) ELSE seen
  /\ TLCSet(1, viol') /\ TLCSet(2, l') /\ TLCSet(3, seen')

TraceSpec == TraceInit /\ [][TraceNext]_tvars

Report ==
  /\ PrintT(<<"CONSUMED", TLCGet(2) - 1, "OF", Len(TraceLog)>>)
  /\ PrintT(<<"VIOLATIONS", ToJson(TLCGet(1))>>)
  /\ PrintT(<<"WITNESSES", ToJson(TLCGet(3))>>)
  /\ TLCGet(2) - 1 = Len(TraceLog)
\* the stake unit of "big unit" histories (see BigNat!UnitLimbs): 10^30
BigUnitLimbs == 10
=============================================================================
