SPECIFICATION TSpec
CONSTANTS
  MaxHeight = 100
  AsBuilt = TRUE
POSTCONDITION Report
CHECK_DEADLOCK FALSE
