--------------------------- MODULE DurabilityTrace ---------------------------
(***************************************************************************)
(* C08 on recorded crash-recovery runs of the real application.  One line  *)
(* per crash point: the block, where the process died (after which         *)
(* consensus call, or after which durable write of Commit), what Info      *)
(* reported after reopening the copy of the data directory, whether        *)
(* reopening / replaying the interrupted block panicked, how far the node  *)
(* continued and whether its application hashes equal those of the node    *)
(* that never crashed.                                                     *)
(*  viol - the C08 predicates on the recorded values (verdict)             *)
(*  diff - Durability.tla (as built) predicts recovery differently from    *)
(*         what the code did (binding of the model; diagnostic)            *)
(***************************************************************************)
EXTENDS Durability, Json

TraceLog == ndJsonDeserialize("trace.ndjson")
VARIABLES l, viol, diff, seen
tvars == <<vars, l, viol, diff, seen>>

TInit == Init /\ l = 1 /\ viol = <<>> /\ diff = <<>> /\ seen = {}

Clauses(e) ==
  (IF e.reopenPanic # "" THEN {"C08: the node cannot be reopened after a crash"} ELSE {})
  \cup (IF e.reopenPanic = "" /\ e.refused # "" THEN {"C08: after a crash the node reports a height the consensus engine cannot reconcile"} ELSE {})
  \cup (IF e.reopenPanic = "" /\ ~(e.infoH \in {e.block - 1, e.block}) THEN {"C08: after a crash the node reports neither the last committed nor the interrupted block"} ELSE {})
  \cup (IF e.reopenPanic = "" /\ e.infoH \in {e.block - 1, e.block} /\ ~e.infoHashOK THEN {"C08: after a crash the reported application hash is not the one of the reported height"} ELSE {})
  \cup (IF e.reopenPanic = "" /\ e.replayPanic # "" THEN {"C08: replaying the interrupted block fails after a crash (the node is bricked)"} ELSE {})
  \cup (IF e.forkAt # 0 THEN {"C08: after recovery the node continues with different application hashes (fork)"} ELSE {})

TNext ==
  /\ l <= Len(TraceLog)
  /\ l' = l + 1
  /\ LET e == TraceLog[l] IN
     IF e.ev = "Crash" THEN
        LET recovered == e.reopenPanic = "" /\ e.replayPanic = "" /\ e.refused = ""
            predicted == PredictRecover(e.block, e.ordinal)
        IN /\ viol' = IF Clauses(e) = {} THEN viol
                      ELSE Append(viol, [line |-> l, block |-> e.block, point |-> e.point, site |-> e.site, ordinal |-> e.ordinal,
                                             info |-> IF e.infoH = e.block - 1 THEN "h-1" ELSE IF e.infoH = e.block THEN "h" ELSE "other", what |-> Clauses(e)])
           /\ diff' = IF recovered # predicted
                        THEN Append(diff, [line |-> l, point |-> e.point, predicted |-> predicted, recovered |-> recovered]) ELSE diff
           /\ seen' = seen \cup {<<e.tenth, e.ordinal>>}
     ELSE IF e.ev = "CrashBase" /\ e.durableOutsideCommit # "" THEN
        /\ viol' = Append(viol, [line |-> l, block |-> 0, point |-> "", site |-> e.durableOutsideCommit, ordinal |-> 0, info |-> "other",
                                 what |-> {"C08: a durable write happens outside Commit (the model has no such step)"}])
        /\ UNCHANGED <<diff, seen>>
     ELSE UNCHANGED <<viol, diff, seen>>
  /\ UNCHANGED vars   \* the model's own state machine is not stepped here; its operators judge each record
  /\ TLCSet(1, viol') /\ TLCSet(2, l') /\ TLCSet(3, diff')

TSpec == TInit /\ [][TNext]_tvars

Report ==
  /\ PrintT(<<"CONSUMED", TLCGet(2) - 1, "OF", Len(TraceLog)>>)
  /\ PrintT(<<"VIOLATIONS", ToJson(TLCGet(1))>>)
  /\ PrintT(<<"DIFFS", ToJson(TLCGet(3))>>)
  /\ TLCGet(2) - 1 = Len(TraceLog)
=============================================================================
