---------------------------- MODULE ReplicasTrace ----------------------------
(***************************************************************************)
(* 2-safety properties on recorded pairs of real replicas (C01, C06, C07). *)
(* The Go driver executes one block history on replica A and a variant of  *)
(* it on replica B (same history in another process / with CheckTx and     *)
(* Query calls injected in a gap / with process restarts at block          *)
(* boundaries) and records, for every consensus call both replicas         *)
(* executed, what each returned to the consensus engine (aout, bout:       *)
(* digests of code, data, gas wanted, gas used / of the validator updates  *)
(* / the application hash) and a digest of each replica's consensus state  *)
(* afterwards (astate, bstate).                                            *)
(*                                                                         *)
(* Replicas.tla states the same property on the model (self-composition    *)
(* of RigoCore); here it is evaluated on the recorded values.              *)
(***************************************************************************)
EXTENDS Integers, Sequences, TLC, Json

TraceLog == ndJsonDeserialize("trace.ndjson")
VARIABLES l, cur, diverged, height, lastHash, viol
vars == <<l, cur, diverged, height, lastHash, viol>>

Init == l = 1 /\ cur = [prop |-> "C01", k |-> -1, desc |-> ""] /\ diverged = FALSE /\ height = 0 /\ lastHash = "" /\ viol = <<>>

What(p, kind, c) ==
  CASE c = "out" /\ kind = "deliver" -> p \o ": a transaction result (code, data, gas) differs between the two replicas"
    [] c = "out" /\ kind = "end"     -> p \o ": the validator updates at the end of a block differ between the two replicas"
    [] c = "out" /\ kind = "commit"  -> p \o ": the application hash differs between the two replicas"
    [] c = "out"                     -> p \o ": a consensus call behaves differently on the two replicas (" \o kind \o ")"
    [] c = "state"                   -> p \o ": the consensus state differs between the two replicas after " \o kind
    [] c = "info"                    -> p \o ": after a restart the node does not report the height and application hash of its last commit"
    [] OTHER -> p \o ": " \o c

Next ==
  /\ l <= Len(TraceLog)
  /\ l' = l + 1
  /\ LET e == TraceLog[l] IN
     CASE e.ev = "Variant" ->
            /\ cur' = [prop |-> e.prop, k |-> e.k, desc |-> e.desc]
            /\ diverged' = FALSE /\ height' = 0 /\ lastHash' = ""
            /\ viol' = viol
       [] e.ev = "Pair" ->
            \* the RESULTS of CheckTx / Query calls that are part of the base history are not constrained (the mempool
            \* view legitimately depends on earlier mempool traffic); their effect on the consensus state is
            LET bad == IF e.aout # e.bout /\ e.kind \notin {"check", "query"} THEN {What(cur.prop, e.kind, "out")}
                       ELSE IF e.astate # e.bstate THEN {What(cur.prop, e.kind, "state")} ELSE {}
            IN /\ viol' = IF bad # {} /\ ~diverged
                            THEN Append(viol, [line |-> l, k |-> cur.k, desc |-> cur.desc, i |-> e.i, what |-> bad])
                            ELSE viol
               /\ diverged' = (diverged \/ bad # {})
               /\ height' = IF e.kind = "commit" THEN height + 1 ELSE height
               /\ lastHash' = IF e.kind = "commit" THEN e.aout ELSE lastHash
               /\ cur' = cur
       [] e.ev = "Inject" ->
            LET want == ToString(height) \o "/" \o lastHash
                bad == IF e.kind = "restart" /\ ~diverged /\ e.out # want THEN {What(cur.prop, e.kind, "info")} ELSE {}
            IN /\ viol' = IF bad # {} THEN Append(viol, [line |-> l, k |-> cur.k, desc |-> cur.desc, i |-> -1, what |-> bad]) ELSE viol
               /\ UNCHANGED <<cur, diverged, height, lastHash>>
       [] OTHER -> UNCHANGED <<cur, diverged, height, lastHash, viol>>
  /\ TLCSet(1, viol') /\ TLCSet(2, l')

Spec == Init /\ [][Next]_vars

Report ==
  /\ PrintT(<<"CONSUMED", TLCGet(2) - 1, "OF", Len(TraceLog)>>)
  /\ PrintT(<<"VIOLATIONS", ToJson(TLCGet(1))>>)
  /\ TLCGet(2) - 1 = Len(TraceLog)
=============================================================================
