---------------------------- MODULE HostileTrace ----------------------------
(***************************************************************************)
(* C09 on recorded hostile-input runs.  Every line is one call on the real *)
(* application with a hostile (or, for Probe, a well-formed) input:        *)
(*   panic  - text of a recovered panic ("" = none)                        *)
(*   ok     - the call returned success                                    *)
(*   state  - digest of the projection of the application state afterwards *)
(* The specification's side of C09 is totality: RigoCore's Apply answers   *)
(* every request, and a request it rejects leaves the state unchanged; a   *)
(* well-formed request afterwards behaves normally.                        *)
(***************************************************************************)
EXTENDS Integers, Sequences, TLC, Json

TraceLog == ndJsonDeserialize("trace.ndjson")
VARIABLES l, prev, viol

Init == l = 1 /\ prev = "" /\ viol = <<>>

Clauses(e) ==
  IF e.ev = "Hostile" THEN
      (IF e.panic # "" THEN {"C09: " \o e.call \o " panicked on a hostile input (" \o e.kind \o ")"} ELSE {})
      \cup (IF e.panic = "" /\ e.call = "DeliverTx" /\ ~e.ok /\ e.state # prev
              THEN {"C09: a rejected transaction changed the application state"} ELSE {})
      \cup (IF e.panic = "" /\ e.call \in {"CheckTx", "Query"} /\ e.state # prev
              THEN {"C06: a mempool check or query changed the consensus state"} ELSE {})
  ELSE IF e.ev = "Probe" THEN
      (IF e.panic # "" THEN {"C09: a well-formed transaction panicked after hostile inputs"} ELSE {})
      \cup (IF e.panic = "" /\ ~e.ok THEN {"C09: the application is no longer usable after hostile inputs (a well-formed transfer fails)"} ELSE {})
      \cup (IF e.before # prev THEN {"C09: state changed between two recorded calls"} ELSE {})
  ELSE IF e.ev = "Dead" THEN
      {"C09: the application panicked while executing a block that settles accepted hostile input: " \o e.what}
  ELSE {}

Next ==
  /\ l <= Len(TraceLog)
  /\ l' = l + 1
  /\ LET e == TraceLog[l] IN
     /\ viol' = IF Clauses(e) = {} THEN viol ELSE Append(viol, [line |-> l, what |-> Clauses(e)])
     /\ prev' = IF "state" \in DOMAIN e THEN e.state ELSE prev
  /\ TLCSet(1, viol') /\ TLCSet(2, l')

Spec == Init /\ [][Next]_<<l, prev, viol>>

Report ==
  /\ PrintT(<<"CONSUMED", TLCGet(2) - 1, "OF", Len(TraceLog)>>)
  /\ PrintT(<<"VIOLATIONS", ToJson(TLCGet(1))>>)
  /\ TLCGet(2) - 1 = Len(TraceLog)
=============================================================================
