SPECIFICATION TraceSpec
POSTCONDITION Report
CHECK_DEADLOCK FALSE
CONSTANT UnitLimbs <- BigUnitLimbs
