SPECIFICATION TraceSpec
CONSTANTS
  Key = {1, 2}
  Val = {1, 2}
  TombFirst = FALSE
POSTCONDITION Report
CHECK_DEADLOCK FALSE
