---------------------------- MODULE LedgerTrace ----------------------------
(***************************************************************************)
(* Trace validation for C18: replays a recorded sequence of calls on the   *)
(* real ledger.FinalityLedger (trace.ndjson, one event per call, several   *)
(* traces separated by Reset events) through the actions of Ledger.tla and *)
(* compares every returned value with the one the specification defines.   *)
(* Mismatches are collected (not fatal) so that the whole file is examined;*)
(* the list is handed to the orchestrator through TLC register 1, the      *)
(* number of consumed lines through register 2.                            *)
(***************************************************************************)
EXTENDS Ledger, Json

TraceLog == ndJsonDeserialize("trace.ndjson")

VARIABLES l,        \* next line to consume
          bad,      \* collected mismatches
          cancelled \* a Cancel* call happened in the current trace: the spec
                    \* follows the code there, C18 does not define the result
tvars == <<vars, l, bad, cancelled>>

TraceInit == Init /\ l = 1 /\ bad = <<>> /\ cancelled = FALSE

ResetAll ==
  /\ tree' = Empty /\ versions' = <<>>
  /\ fPend' = Empty /\ fTomb' = NoTomb /\ cPend' = Empty /\ cTomb' = NoTomb
  /\ ret' = R("Init", None, None, None)
  /\ lastW' = NoWrite /\ cLastW' = NoWrite

HasOut == {"GetFinality", "DelFinality", "Get", "Del", "Read", "IterateAll", "Commit", "ReadAt", "Reopen"}
CancelOps == {"CancelSetFinality", "CancelDelFinality", "CancelSet", "CancelDel"}

Step(e) ==
  CASE e.op = "Reset"             -> ResetAll
    [] e.op = "SetFinality"       -> SetFinality(e.k, e.v)
    [] e.op = "GetFinality"       -> GetFinality(e.k)
    [] e.op = "DelFinality"       -> DelFinality(e.k)
    [] e.op = "CancelSetFinality" -> CancelSetFinality(e.k)
    [] e.op = "CancelDelFinality" -> CancelDelFinality(e.k)
    [] e.op = "Set"               -> Set(e.k, e.v)
    [] e.op = "Get"               -> Get(e.k)
    [] e.op = "Del"               -> Del(e.k)
    [] e.op = "CancelSet"         -> CancelSet(e.k)
    [] e.op = "CancelDel"         -> CancelDel(e.k)
    [] e.op = "Read"              -> Read(e.k)
    [] e.op = "IterateAll"        -> IterateAll
    [] e.op = "Commit"            -> Commit
    [] e.op = "ReadAt"            -> ReadAt(e.v, e.k)
    [] e.op = "Reopen"            -> Reopen

TraceNext ==
  /\ l <= Len(TraceLog)
  /\ LET e == TraceLog[l] IN
     /\ Step(e)
     /\ l' = l + 1
     /\ cancelled' = IF e.op = "Reset" THEN FALSE ELSE (cancelled \/ e.op \in CancelOps)
     /\ bad' = IF e.op \in HasOut /\ ret'.out # e.out
                 THEN Append(bad, [line |-> l, op |-> e.op, k |-> e.k, v |-> e.v,
                                   expected |-> ret'.out, got |-> e.out,
                                   \* unspecified by C18: "version 0".  (Results after a Cancel* are specified: a cancel
                                   \* withdraws that overlay's pending write, or one pending delete, of the key - what stays
                                   \* visible, and what the next commit persists, is what the overlay still holds.)
                                   unspecified |-> (e.op = "ReadAt" /\ e.v = 0)])
                 ELSE bad
     /\ TLCSet(1, bad') /\ TLCSet(2, l')

TraceSpec == TraceInit /\ [][TraceNext]_tvars

\* evaluated once at the end of the run
Report ==
  /\ PrintT(<<"CONSUMED", TLCGet(2) - 1, "OF", Len(TraceLog)>>)
  /\ PrintT(<<"MISMATCHES", ToJson(TLCGet(1))>>)
  /\ TLCGet(2) - 1 = Len(TraceLog)
=============================================================================
