------------------------------ MODULE RigoConf ------------------------------
(***************************************************************************)
(* Conformance of the real application to the transition model             *)
(* RigoCore.tla: is every recorded behaviour a behaviour of the model?     *)
(*                                                                         *)
(* The model state m is stepped by RigoCore's BeginBlock / DeliverTx /     *)
(* EndBlock / Commit / Restart with the recorded requests; after each step *)
(* its consensus-relevant fields and the response are compared with what   *)
(* the real code returned and with the projection of its state.  A         *)
(* difference is recorded (line, call, fields) and the model is            *)
(* re-synchronised to the recorded state, so that the rest of the trace is *)
(* still examined.  A difference is NOT a property violation: it says that *)
(* the code does something the specification does not describe (the        *)
(* verdicts are RigoTrace's).  Steps the model does not describe (contract *)
(* execution) adopt the recorded effect.                                   *)
(***************************************************************************)
EXTENDS RigoCore, Json

TraceLog == ndJsonDeserialize("trace.ndjson")

VARIABLES l, m, live, diffs, cnt
cvars == <<l, m, live, diffs, cnt>>

NoModel == [h |-> 0]
EmptyF == [x \in {} |-> 0]

ConfInit == l = 1 /\ m = NoModel /\ live = FALSE /\ diffs = <<>> /\ cnt = [steps |-> 0, adopted |-> 0, traces |-> 0]

\* the recorded projection as a model state; model-only fields are taken from `old`
Lift(post, old) ==
  [h |-> post.h, inblock |-> post.inblock, lastH |-> post.lastH, feeSum |-> post.feeSum, txCount |-> post.txCount,
   accts |-> post.accts, delegs |-> post.delegs, frozen |-> post.frozen, rewards |-> post.rewards,
   props |-> post.props, fprops |-> post.fprops, gov |-> post.gov, govLedger |-> post.govLedger, govPending |-> post.govPending,
   vol |-> [lastVals |-> post.vol.lastVals, allDelegs |-> old.vol.allDelegs, limiter |-> post.vol.limiter,
            rwdHash |-> post.vol.rwdHash, evmRoot |-> post.vol.evmRoot, evmHeight |-> post.vol.evmHeight],
   prevGov |-> old.prevGov, tree |-> old.tree, hist |-> old.hist, docs |-> old.docs, delivered |-> old.delivered,
   proposer |-> old.proposer, rank |-> old.rank, mem |-> old.mem]

GenesisModel(e) ==
  Lift(e.post, [vol |-> [allDelegs |-> EmptyF], prevGov |-> e.post.gov,
                \* the genesis state is not a committed version: until block 1 is committed the mempool sees nothing
                mem |-> [accts |-> EmptyF, delegs |-> EmptyF, frozen |-> <<>>, rewards |-> EmptyF, props |-> EmptyF, limiter |-> e.post.vol.limiter],
                tree |-> [delegs |-> EmptyF, frozen |-> <<>>, props |-> EmptyF, fprops |-> EmptyF],
                hist |-> EmptyF, docs |-> EmptyF, delivered |-> {}, proposer |-> "none", rank |-> e.addrRank])

\* names of the compared fields in which the model state and the recorded projection differ
StateDiff(mm, post, withLimiter) ==
  {f \in {"h", "lastH", "inblock", "feeSum", "accts", "delegs", "rewards", "props", "fprops", "gov", "govPending", "govLedger"} : mm[f] # post[f]}
  \cup (IF SeqSet(mm.frozen) # SeqSet(post.frozen) THEN {"frozen"} ELSE {})
  \cup (IF mm.vol.lastVals # post.vol.lastVals THEN {"lastVals"} ELSE {})
  \cup (IF withLimiter /\ mm.vol.limiter # post.vol.limiter THEN {"limiter"} ELSE {})

RespDiff(e, r) ==
  CASE e.ev \in {"DeliverTx", "CheckTx"} -> (IF r.resp.ok # e.resp.ok THEN {"resp.ok"} ELSE {})
                             \cup (IF e.ev = "DeliverTx" /\ r.resp.ok /\ e.resp.ok /\ r.resp.gasUsed # e.resp.gasUsed THEN {"resp.gasUsed"} ELSE {})
    [] e.ev = "EndBlock"  -> (IF r.resp.valUpdates # e.resp.valUpdates THEN {"resp.valUpdates"} ELSE {})
    [] OTHER -> {}

\* detail of the first differing field (for diagnosis)
MapFields == {"accts", "delegs", "rewards", "props", "fprops"}
Detail(f, mm, post, e, r) ==
  IF f \in MapFields THEN
     LET a == mm[f]  b == post[f]
         ks == {k \in DOMAIN a \cup DOMAIN b : k \notin DOMAIN a \/ k \notin DOMAIN b \/ a[k] # b[k]}
         k == CHOOSE x \in ks : TRUE
     IN [keys |-> ks, key |-> k, model |-> IF k \in DOMAIN a THEN <<a[k]>> ELSE <<>>, code |-> IF k \in DOMAIN b THEN <<b[k]>> ELSE <<>>]
  ELSE IF f = "lastVals" THEN [model |-> mm.vol.lastVals, code |-> post.vol.lastVals]
  ELSE IF f = "limiter" THEN [model |-> mm.vol.limiter, code |-> post.vol.limiter]
  ELSE IF f = "frozen" THEN [model |-> SeqSet(mm.frozen) \ SeqSet(post.frozen), code |-> SeqSet(post.frozen) \ SeqSet(mm.frozen)]
  ELSE IF f = "resp.valUpdates" THEN [model |-> r.resp.valUpdates, code |-> e.resp.valUpdates]
  ELSE IF f = "resp.ok" THEN [model |-> r.resp.ok, code |-> e.resp.ok, log |-> e.resp.log]
  ELSE IF f = "resp.gasUsed" THEN [model |-> r.resp.gasUsed, code |-> e.resp.gasUsed]
  ELSE [model |-> mm[f], code |-> post[f]]

\* the model's step for a recorded call
ModelStep(e) ==
  CASE e.ev = "BeginBlock" -> BeginBlock(m, [h |-> e.h, proposer |-> e.proposer, votes |-> e.votes, evidence |-> e.evidence])
    [] e.ev = "DeliverTx"  -> DeliverTx(m, e.tx)
    [] e.ev = "EndBlock"   -> EndBlock(m)
    [] e.ev = "Commit"     -> Commit(m)
    [] e.ev = "CheckTx"    -> IF "recheck" \in DOMAIN e /\ e.recheck THEN Recheck(m, e.tx) ELSE CheckTx(m, e.tx)
    [] e.ev = "Restart"    -> Restart(m)

\* steps the model does not describe: contract execution (EvmBridge.tla and the reference run decide those)
Undescribed(e) == e.ev \in {"DeliverTx", "CheckTx"} /\ e.tx.type # "garbage" /\ (EvmTx(m, e.tx) \/ (e.tx.to \in DOMAIN m.accts /\ m.accts[e.tx.to].code # 0))

DocsOfTx(e, old) ==
  IF e.ev = "DeliverTx" /\ e.tx.type = "proposal" /\ e.resp.ok
  THEN LET os == e.tx.payload.opts IN
       [d \in DOMAIN old \cup {os[i].doc : i \in 1..Len(os)} |->
          IF d \in DOMAIN old THEN old[d] ELSE os[CHOOSE i \in 1..Len(os) : os[i].doc = d]]
  ELSE old

ConfEvents == {"BeginBlock", "DeliverTx", "EndBlock", "Commit", "CheckTx", "Restart"}

ConfNext ==
  /\ l <= Len(TraceLog)
  /\ l' = l + 1
  /\ LET e == TraceLog[l] IN
     IF e.ev = "Genesis" THEN
        /\ m' = GenesisModel(e) /\ live' = TRUE /\ diffs' = diffs
        /\ cnt' = [cnt EXCEPT !.traces = @ + 1]
     ELSE IF ~live \/ e.ev \notin ConfEvents THEN UNCHANGED <<m, live, diffs, cnt>>
     ELSE IF "post" \notin DOMAIN e \/ e.panic # "" THEN
        \* the replica died: nothing to compare for the rest of this trace
        /\ live' = FALSE /\ UNCHANGED <<m, diffs, cnt>>
     ELSE IF Undescribed(e) THEN
        /\ m' = [Lift(e.post, m) EXCEPT !.delivered = IF e.resp.ok THEN @ \cup {e.tx.hash} ELSE @]
        /\ cnt' = [cnt EXCEPT !.adopted = @ + 1]
        /\ UNCHANGED <<live, diffs>>
     ELSE
        LET r0 == ModelStep(e)
            \* several proposals applied in one block: the order (the ledger's key order) is not determined by the model
            r == IF e.ev = "EndBlock" /\ r0.s.govPending # e.post.govPending /\ e.post.govPending.some
                    /\ e.post.govPending.v \in ApplyCandidates(m)
                   THEN [r0 EXCEPT !.s.govPending = e.post.govPending, !.s.govLedger = [some |-> TRUE, v |-> e.post.govPending.v]]
                   ELSE r0
            d == StateDiff(r.s, e.post, e.ev \in {"BeginBlock", "DeliverTx"}) \cup RespDiff(e, r)
        IN /\ diffs' = IF d = {} THEN diffs
                       ELSE Append(diffs, [line |-> l, ev |-> e.ev, fields |-> d,
                                           tag |-> IF e.ev = "DeliverTx" /\ "tag" \in DOMAIN e THEN e.tag ELSE "",
                                           detail |-> IF Len(diffs) < 40 THEN <<Detail(CHOOSE f \in d : TRUE, r.s, e.post, e, r)>> ELSE <<>>])
           /\ m' = IF d = {} THEN r.s ELSE [Lift(e.post, r.s) EXCEPT !.docs = DocsOfTx(e, r.s.docs)]
           /\ cnt' = [cnt EXCEPT !.steps = @ + 1]
           /\ live' = live
  /\ TLCSet(1, diffs') /\ TLCSet(2, l') /\ TLCSet(3, cnt')

ConfSpec == ConfInit /\ [][ConfNext]_cvars

ConfReport ==
  /\ PrintT(<<"CONSUMED", TLCGet(2) - 1, "OF", Len(TraceLog)>>)
  /\ PrintT(<<"COUNTS", ToJson(TLCGet(3))>>)
  /\ PrintT(<<"DIFFS", ToJson(TLCGet(1))>>)
  /\ TLCGet(2) - 1 = Len(TraceLog)
\* the stake unit of "big unit" histories (see BigNat!UnitLimbs): 10^30
BigUnitLimbs == 10
=============================================================================
