---------------------------- MODULE PrivValTrace ----------------------------
(***************************************************************************)
(* Trace validation for C20.  trace.ndjson holds, per step executed on the *)
(* real SFilePV: the request, the result (signature token, returned        *)
(* timestamp, error class, whether the signature verifies), the decoded    *)
(* content of the state file after the call, and crash/reload steps.       *)
(*                                                                         *)
(* Two things are computed for every line:                                 *)
(*  viol - the C20 predicates evaluated on RECORDED values only (released  *)
(*         signatures, state-file contents); these are verdicts;           *)
(*  diff - disagreement between the result PrivVal.tla predicts and the    *)
(*         recorded one (binding of the model to the code; diagnostic).    *)
(***************************************************************************)
EXTENDS PrivVal, Json

TraceLog == ndJsonDeserialize("trace.ndjson")

VARIABLES l, viol, diff,
          rel,      \* recorded: set of [h, r, s, bid, rts, sig] handed out by the real signer
          predisk   \* recorded: state file content after the previous step
tvars == <<vars, l, viol, diff, rel, predisk>>

NoDisk == [h |-> 0, r |-> 0, s |-> 0, signed |-> FALSE, bid |-> 0, ts |-> 0]

TraceInit == Init /\ l = 1 /\ viol = <<>> /\ diff = <<>> /\ rel = {} /\ predisk = NoDisk

ResetAll ==
  /\ disk' = NoRec /\ mem' = NoRec /\ up' = TRUE /\ pend' = NoRec /\ released' = {}
  /\ last' = [req |-> NoMsg, ts |-> 0, res |-> "init", sig |-> NoRec]

H3(x) == <<x.h, x.r, x.s>>

(* One recorded line can be two steps of PrivVal.tla (TLC's action          *)
(* composition is incomplete, so the compositions are written out; each is *)
(* literally "first action, then second action" of the module).            *)
\* Persist(m, ts) followed by Release
PersistRelease(m, ts) ==
  /\ up /\ pend = NoRec /\ Less(HRS(mem.msg), HRS(m))
  /\ LET rec == [msg |-> m, ts |-> ts, signed |-> TRUE] IN
     /\ disk' = rec /\ mem' = rec /\ pend' = NoRec
     /\ released' = released \cup {[msg |-> m, ts |-> ts]}
     /\ last' = [req |-> m, ts |-> ts, res |-> "ok", sig |-> rec]
  /\ UNCHANGED up

\* Persist(m, ts) followed by Crash
PersistCrash(m, ts) ==
  /\ up /\ pend = NoRec /\ Less(HRS(mem.msg), HRS(m))
  /\ disk' = [msg |-> m, ts |-> ts, signed |-> TRUE]
  /\ up' = FALSE /\ pend' = NoRec /\ mem' = NoRec
  /\ last' = [req |-> NoMsg, ts |-> 0, res |-> "crash", sig |-> NoRec]
  /\ UNCHANGED released

\* Crash (if still up) followed by Reload
Restart ==
  /\ pend = NoRec
  /\ up' = TRUE /\ mem' = disk
  /\ last' = [req |-> NoMsg, ts |-> 0, res |-> "reload", sig |-> NoRec]
  /\ UNCHANGED <<disk, pend, released>>

\* the model step that corresponds to one recorded line
ModelStep(e) ==
  CASE e.ev = "Reset"  -> ResetAll
    [] e.ev = "Reload" -> Restart
    [] e.ev = "Sign"   ->
         LET m == [h |-> e.h, r |-> e.r, s |-> e.s, bid |-> e.bid] IN
         IF Regress(m) \/ SameHRS(m) THEN Answer(m, e.ts)
         ELSE IF e.crash THEN PersistCrash(m, e.ts)
         ELSE PersistRelease(m, e.ts)

\* result class as the model names it
LoggedRes(e) == IF e.res = "err" THEN e.err ELSE e.res

\* the model takes the step and predicts the recorded result
Conforms(e) == ModelStep(e) /\ (e.ev = "Sign" => last'.res = LoggedRes(e))

\* the code did something else: the model adopts the recorded state so that the rest of the trace is still examined
FromDisk(d) == [msg |-> [h |-> d.h, r |-> d.r, s |-> d.s, bid |-> d.bid], ts |-> d.ts, signed |-> d.signed]
Resync(e) ==
  /\ disk' = FromDisk(e.disk)
  /\ up' = (e.ev # "Sign" \/ e.res # "crash")
  /\ mem' = IF up' THEN FromDisk(e.disk) ELSE NoRec
  /\ pend' = NoRec
  /\ released' = IF e.ev = "Sign" /\ e.res = "ok"
                  THEN released \cup {[msg |-> [h |-> e.h, r |-> e.r, s |-> e.s, bid |-> e.bid], ts |-> e.rts]} ELSE released
  /\ last' = [req |-> NoMsg, ts |-> 0, res |-> "resync", sig |-> NoRec]

\* C20 predicates on recorded values; each returns the set of violated names
Checks(e) ==
  IF e.ev = "Reload" THEN
      (IF e.disk # predisk THEN {"reload changed the state file"} ELSE {})
  ELSE IF e.ev # "Sign" THEN {}
  ELSE
    LET ok    == e.res = "ok"
        sameH == {x \in rel : H3(x) = H3(e)}
        fresh == ok /\ ~(\E x \in rel : x.sig = e.sig)
        pre   == predisk
    IN
    (IF ok /\ \E x \in sameH : x.bid # e.bid
        THEN {"NoDoubleSign: two different messages signed at one height/round/step"} ELSE {})
    \cup
    (IF ok /\ \E x \in sameH : x.bid = e.bid /\ (x.sig # e.sig \/ x.rts # e.rts)
        THEN {"NoDoubleSign: repeated request did not get the original signature and timestamp"} ELSE {})
    \cup
    (IF fresh /\ \E x \in rel : ~Less(H3(x), H3(e))
        THEN {"Monotone: new signature at or below an already released height/round/step"} ELSE {})
    \cup
    (IF fresh /\ pre.signed /\ ~( Less(H3(pre), H3(e))
                                  \/ (H3(pre) = H3(e) /\ pre.bid = e.bid /\ pre.ts = e.rts) )
        THEN {"Monotone: new signature at or below the durable last-sign record"} ELSE {})
    \cup
    (IF ok /\ ~Leq(H3(e), H3(e.disk))
        THEN {"PersistBeforeRelease: state file is behind a released signature"} ELSE {})
    \cup
    (IF e.res = "crash" /\ e.leaked
        THEN {"PersistBeforeRelease: signature was visible to the caller before the record was durable"} ELSE {})
    \cup
    (IF e.res = "crash" /\ ~(e.disk.signed /\ H3(e.disk) = H3(e) /\ e.disk.bid = e.bid)
        THEN {"PersistBeforeRelease: record not durable at the persist point"} ELSE {})
    \cup
    (IF pre.signed /\ H3(pre) = H3(e) /\ pre.bid = e.bid /\ e.res # "crash"
          /\ ~(ok /\ e.rts = pre.ts /\ \A x \in sameH : x.sig = e.sig)
        THEN {"ReplayReturnsOriginal: same message (up to timestamp) was refused or re-signed"} ELSE {})
    \cup
    (IF ok /\ ~e.valid THEN {"returned signature does not verify for the request with the returned timestamp"} ELSE {})
    \cup
    (IF e.res = "err" /\ e.disk # pre THEN {"a refused request changed the state file"} ELSE {})

TraceNext ==
  /\ l <= Len(TraceLog)
  /\ LET e == TraceLog[l] IN
     /\ \/ Conforms(e) /\ diff' = diff
        \/ /\ ~ENABLED Conforms(e)
           /\ Resync(e)
           /\ diff' = Append(diff, [line |-> l, predicted |-> "another result (the model is re-synchronised)", recorded |-> LoggedRes(e)])
     /\ l' = l + 1
     /\ LET cs == Checks(e) IN
        viol' = IF cs = {} THEN viol
                ELSE Append(viol, [line |-> l, what |-> cs])
     /\ rel' = IF e.ev = "Reset" THEN {}
               ELSE IF e.ev = "Sign" /\ e.res = "ok"
                 THEN rel \cup {[h |-> e.h, r |-> e.r, s |-> e.s, bid |-> e.bid, rts |-> e.rts, sig |-> e.sig]}
                 ELSE rel
     /\ predisk' = e.disk
     /\ TLCSet(1, viol') /\ TLCSet(2, l') /\ TLCSet(3, diff')

TraceSpec == TraceInit /\ [][TraceNext]_tvars

Report ==
  /\ PrintT(<<"CONSUMED", TLCGet(2) - 1, "OF", Len(TraceLog)>>)
  /\ PrintT(<<"VIOLATIONS", ToJson(TLCGet(1))>>)
  /\ PrintT(<<"DIFFS", ToJson(TLCGet(3))>>)
  /\ TLCGet(2) - 1 = Len(TraceLog)
=============================================================================
