------------------------------ MODULE EvmBridge ------------------------------
(***************************************************************************)
(* The bridge between the native account ledger and the EVM state DB       *)
(* (ctrlers/vm/evm/statedb.go: StateDBWrapper; property C17).              *)
(*                                                                         *)
(* The EVM's state DB keeps its own copy of balance and nonce of every     *)
(* account; the native ledger is the truth.  Within one transaction an     *)
(* account is "synced in" (copied native -> EVM) when it is first accessed *)
(* and all synced accounts are written back (EVM -> native) at Finish.     *)
(* The EVM journals every change and can revert to any snapshot; the       *)
(* wrapper must forget exactly the sync-ins that the revert undoes,        *)
(* otherwise the EVM continues on a stale copy and Finish writes it back.  *)
(* The wrapper does this with tags:  an account synced while the last      *)
(* snapshot taken has id n is tagged n + 1;  RevertToSnapshot(id) forgets  *)
(* the accounts whose tag is greater than id.                              *)
(*                                                                         *)
(* The environment is go-ethereum's interpreter: it takes a snapshot at    *)
(* every call entry (ids increase), touches an address only after adding   *)
(* it to the (journaled) access list, and reverts to snapshots it took.    *)
(*                                                                         *)
(* TagOffset / DropIf select the tagging rule; the code's rule is          *)
(* TagOffset = 1, DropIf = "gt".                                           *)
(***************************************************************************)
EXTENDS Integers, Sequences, FiniteSets, TLC

CONSTANTS Addr,        \* set of addresses
          MaxOps,      \* bound on the number of steps inside one transaction
          TagOffset,   \* tag of a sync-in = id of the last snapshot taken + TagOffset
          DropIf       \* "gt": revert(id) forgets tag > id;  "ge": forgets tag >= id

VARIABLES
  native,   \* [Addr -> Nat]  balance in the native ledger
  world,    \* [Addr -> Nat]  balance in the EVM state DB (stale unless synced)
  journal,  \* undo log: <<kind, address, old value>>, kind in {"bal", "acl"}
  snaps,    \* Seq of [id, jlen]: live snapshots
  nextId, lastSnap,
  synced,   \* [Addr -> Nat]: 0 = not synced, else the tag
  syncAt,   \* [Addr -> Nat]: journal position of the sync-in write (model bookkeeping for the invariant)
  acl,      \* set of addresses in the access list
  phase,    \* "idle" | "tx" | "done"
  base,     \* native ledger at the start of the transaction
  wasSynced, outcome, nops

vars == <<native, world, journal, snaps, nextId, lastSnap, synced, syncAt, acl, phase, base, wasSynced, outcome, nops>>

Init ==
  /\ native = [a \in Addr |-> 5]
  /\ world = [a \in Addr |-> 7]            \* whatever earlier blocks left in the EVM copy: stale
  /\ journal = <<>> /\ snaps = <<>> /\ nextId = 0 /\ lastSnap = 0
  /\ synced = [a \in Addr |-> 0] /\ syncAt = [a \in Addr |-> 0] /\ acl = {}
  /\ phase = "idle" /\ base = native /\ wasSynced = {} /\ outcome = "none" /\ nops = 0

\* copy native -> EVM on first access (journaled like any other balance write)
SyncIn(a, w, j, sy, sa) ==
  IF sy[a] > 0 THEN [w |-> w, j |-> j, sy |-> sy, sa |-> sa]
  ELSE [w |-> [w EXCEPT ![a] = native[a]], j |-> Append(j, <<"bal", a, w[a]>>),
        sy |-> [sy EXCEPT ![a] = lastSnap + TagOffset], sa |-> [sa EXCEPT ![a] = Len(j) + 1]]

TxBegin(from, to) ==
  /\ phase = "idle"
  /\ LET id == nextId
         r1 == [w |-> world, j |-> <<>>, sy |-> [a \in Addr |-> 0], sa |-> [a \in Addr |-> 0]]
     IN /\ snaps' = <<[id |-> id, jlen |-> 0]>> /\ nextId' = id + 1 /\ lastSnap' = id
        \* Prepare: sync sender and receiver (tag = id + TagOffset)
        /\ LET s1 == IF r1.sy[from] > 0 THEN r1 ELSE
                       [w |-> [r1.w EXCEPT ![from] = native[from]], j |-> Append(r1.j, <<"bal", from, r1.w[from]>>),
                        sy |-> [r1.sy EXCEPT ![from] = id + TagOffset], sa |-> [r1.sa EXCEPT ![from] = Len(r1.j) + 1]]
               s2 == IF s1.sy[to] > 0 THEN s1 ELSE
                       [w |-> [s1.w EXCEPT ![to] = native[to]], j |-> Append(s1.j, <<"bal", to, s1.w[to]>>),
                        sy |-> [s1.sy EXCEPT ![to] = id + TagOffset], sa |-> [s1.sa EXCEPT ![to] = Len(s1.j) + 1]]
           IN world' = s2.w /\ journal' = s2.j /\ synced' = s2.sy /\ syncAt' = s2.sa
  /\ acl' = {from, to} /\ phase' = "tx" /\ base' = native /\ wasSynced' = {} /\ outcome' = "none" /\ nops' = 0
  /\ UNCHANGED native

\* the interpreter enters a call: snapshot
Snapshot ==
  /\ phase = "tx" /\ nops < MaxOps
  /\ snaps' = Append(snaps, [id |-> nextId, jlen |-> Len(journal)])
  /\ lastSnap' = nextId /\ nextId' = nextId + 1 /\ nops' = nops + 1
  /\ UNCHANGED <<native, world, journal, synced, syncAt, acl, phase, base, wasSynced, outcome>>

\* first access of an address inside the transaction: access list entry + sync-in
Access(a) ==
  /\ phase = "tx" /\ nops < MaxOps /\ a \notin acl
  /\ LET j1 == Append(journal, <<"acl", a, 0>>)
         r == SyncIn(a, world, j1, synced, syncAt)
     IN world' = r.w /\ journal' = r.j /\ synced' = r.sy /\ syncAt' = r.sa
  /\ acl' = acl \cup {a} /\ nops' = nops + 1
  /\ UNCHANGED <<native, snaps, nextId, lastSnap, phase, base, wasSynced, outcome>>

\* the interpreter changes the balance of an address it has access to
Write(a, v) ==
  /\ phase = "tx" /\ nops < MaxOps /\ a \in acl /\ world[a] # v
  /\ journal' = Append(journal, <<"bal", a, world[a]>>)
  /\ world' = [world EXCEPT ![a] = v] /\ nops' = nops + 1
  /\ UNCHANGED <<native, snaps, nextId, lastSnap, synced, syncAt, acl, phase, base, wasSynced, outcome>>

RECURSIVE Unwind(_, _, _, _)
Unwind(w, ac, j, upto) ==   \* undo journal entries beyond position upto
  IF Len(j) <= upto THEN [w |-> w, acl |-> ac, j |-> j]
  ELSE LET e == j[Len(j)]  rest == SubSeq(j, 1, Len(j) - 1) IN
       IF e[1] = "bal" THEN Unwind([w EXCEPT ![e[2]] = e[3]], ac, rest, upto)
       ELSE Unwind(w, ac \ {e[2]}, rest, upto)

Drop(tag, id) == IF DropIf = "gt" THEN tag > id ELSE tag >= id

RevertTo(i) ==   \* i = index into snaps
  LET sn == snaps[i]
      u == Unwind(world, acl, journal, sn.jlen)
  IN /\ world' = u.w /\ acl' = u.acl /\ journal' = u.j
     /\ snaps' = SubSeq(snaps, 1, i - 1)
     /\ synced' = [a \in Addr |-> IF synced[a] > 0 /\ Drop(synced[a], sn.id) THEN 0 ELSE synced[a]]
     /\ syncAt' = [a \in Addr |-> IF synced'[a] = 0 THEN 0 ELSE syncAt[a]]

\* a nested call fails: revert to its snapshot (not the transaction's own, which is snaps[1])
Revert(i) ==
  /\ phase = "tx" /\ nops < MaxOps /\ i \in 2..Len(snaps)
  /\ RevertTo(i) /\ nops' = nops + 1
  /\ UNCHANGED <<native, nextId, lastSnap, phase, base, wasSynced, outcome>>

\* Finish: write every synced account back
WriteBack(w, sy) == [a \in Addr |-> IF sy[a] > 0 THEN w[a] ELSE native[a]]

TxEndOK ==
  /\ phase = "tx"
  /\ native' = WriteBack(world, synced) /\ wasSynced' = {a \in Addr : synced[a] > 0}
  /\ synced' = [a \in Addr |-> 0] /\ phase' = "done" /\ outcome' = "ok"
  /\ UNCHANGED <<world, journal, snaps, nextId, lastSnap, syncAt, acl, base, nops>>

\* the whole transaction fails: revert to the snapshot taken before Prepare, then Finish
TxEndFail ==
  /\ phase = "tx"
  /\ LET sn == snaps[1]
         u == Unwind(world, acl, journal, sn.jlen)
         sy == [a \in Addr |-> IF synced[a] > 0 /\ Drop(synced[a], sn.id) THEN 0 ELSE synced[a]]
     IN /\ world' = u.w /\ acl' = u.acl /\ journal' = u.j
        /\ native' = WriteBack(u.w, sy) /\ wasSynced' = {a \in Addr : sy[a] > 0}
  /\ synced' = [a \in Addr |-> 0] /\ syncAt' = [a \in Addr |-> 0] /\ snaps' = <<>>
  /\ phase' = "done" /\ outcome' = "failed"
  /\ UNCHANGED <<nextId, lastSnap, base, nops>>

Next ==
  \/ \E f, t \in Addr : f # t /\ TxBegin(f, t)
  \/ Snapshot
  \/ \E a \in Addr : Access(a)
  \/ \E a \in Addr, v \in {0, 9} : Write(a, v)
  \/ \E i \in 2..4 : Revert(i)
  \/ TxEndOK \/ TxEndFail

Spec == Init /\ [][Next]_vars

---------------------------------------------------------------------------
(* C17, bridge part *)

\* everything the interpreter may touch is synced, and its sync-in write has not been undone by a revert:
\* the interpreter never works on a stale copy
NoStaleRead ==
  phase = "tx" =>
    \A a \in acl : /\ synced[a] > 0
                   /\ syncAt[a] \in 1..Len(journal) /\ journal[syncAt[a]][1] = "bal" /\ journal[syncAt[a]][2] = a

\* an account is never marked synced while the journal no longer holds its sync-in write
SyncNotReverted ==
  phase = "tx" => \A a \in Addr : synced[a] > 0 => syncAt[a] \in 1..Len(journal)

\* a failed transaction leaves the native ledger exactly as it was
FailureIsInvisible == outcome = "failed" => native = base

\* after success: synced accounts carry the EVM's result, all others are unchanged
WriteBackExact == outcome = "ok" => \A a \in Addr : native[a] = (IF a \in wasSynced THEN world[a] ELSE base[a])
=============================================================================
