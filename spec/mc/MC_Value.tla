------------------------------ MODULE MC_Value ------------------------------
(* constants of the MC_Value configuration (records cannot be written in a .cfg file) *)
EXTENDS MC_Rigo
cRank == [a1 |-> 1, a2 |-> 2, a3 |-> 3, newcomer |-> 4, zero |-> 0, stranger |-> 9]
cAccts == [a1 |-> 5, a2 |-> 3, a3 |-> 0]
cGenVals == [a1 |-> 3]
cMenu == {"transfer", "staking", "unstaking", "withdraw", "invalid"}
cSenders == {"a2", "a3"}
=============================================================================
