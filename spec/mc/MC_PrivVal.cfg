\* C20 design check: heights 1-2, rounds 0-1, 3 steps, 2 block ids (+nil = 0), 2 timestamps,
\* <= 7 steps (requests, releases, crashes, reloads in any order)
SPECIFICATION MCSpec
CONSTANTS
  Heights = {1, 2}
  Rounds = {0, 1}
  Bids = {0, 1, 2}
  Stamps = {1, 2}
  MaxSteps = 7
INVARIANTS TypeOK NoDoubleSign PersistBeforeRelease
PROPERTIES Monotone ReplayReturnsOriginal
CHECK_DEADLOCK FALSE
