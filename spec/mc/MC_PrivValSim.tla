--------------------------- MODULE MC_PrivValSim ---------------------------
(* Behaviour generation for C20 (tlc -simulate): PrivVal.tla plus a history *)
(* of driver-level steps, printed as JSON when a walk reaches MaxSteps.     *)
EXTENDS PrivVal, Json
CONSTANT MaxSteps
VARIABLES n, hist

SignRec(m, ts, crash) == [ev |-> "Sign", h |-> m.h, r |-> m.r, s |-> m.s, bid |-> m.bid, ts |-> ts, crash |-> crash]
ReloadRec == [ev |-> "Reload", h |-> 0, r |-> 0, s |-> 0, bid |-> 0, ts |-> 0, crash |-> FALSE]

SimInit == Init /\ n = 0 /\ hist = <<>>
Walk ==
  /\ n < MaxSteps /\ n' = n + 1
  /\ \/ \E q \in Requests : Answer(q[1], q[2]) /\ hist' = Append(hist, SignRec(q[1], q[2], FALSE))
     \/ \E q \in Requests : Persist(q[1], q[2]) /\ hist' = hist
     \/ Release /\ hist' = Append(hist, SignRec(pend.msg, pend.ts, FALSE))
     \/ Crash /\ hist' = IF pend # NoRec THEN Append(hist, SignRec(pend.msg, pend.ts, TRUE)) ELSE hist
     \/ Reload /\ hist' = Append(hist, ReloadRec)
\* a single final step so that the history is printed once per walk
End == n = MaxSteps /\ n' = n + 1 /\ UNCHANGED <<vars, hist>>
SimNext == Walk \/ End
SimSpec == SimInit /\ [][SimNext]_<<vars, n, hist>>
SimPrint == (n = MaxSteps + 1) => PrintT(<<"BEH", ToJson(hist)>>)
=============================================================================
