-------------------------- MODULE MC_DurabilityEnum --------------------------
(* Explores the as-built model to completion (no invariant) and prints the  *)
(* set of crash points <<height is a multiple of 10, number of completed    *)
(* commit writes>> after which recovery fails / succeeds.                   *)
EXTENDS Durability, Json
EnumInit == Init /\ TLCSet(3, {}) /\ TLCSet(4, {})
EnumSpec == EnumInit /\ [][Next]_vars
Collect == IF rec = <<>> THEN TRUE
           ELSE IF rec[3] THEN TLCSet(4, TLCGet(4) \cup {<<rec[1], rec[2]>>})
           ELSE TLCSet(3, TLCGet(3) \cup {<<rec[1], rec[2]>>})
Report == /\ PrintT(<<"BRICKS", ToJson(TLCGet(3))>>)
          /\ PrintT(<<"RECOVERS", ToJson(TLCGet(4))>>)
=============================================================================
