\* C08 design check, AS-BUILT (finding D4): NeverBricked is expected to FAIL: heights 9..11 reached from 1,
\* crash anywhere, up to 2 crashes
SPECIFICATION Spec
CONSTANTS
  MaxHeight = 11
  AsBuilt = TRUE
INVARIANTS TypeOK NeverBricked
PROPERTIES InfoIsReconcilable
CHECK_DEADLOCK FALSE
