\* C08 design check, repaired design (stores rolled back to bc on open): heights 9..11 reached from 1,
\* crash anywhere, up to 2 crashes
SPECIFICATION Spec
CONSTANTS
  MaxHeight = 11
  AsBuilt = FALSE
INVARIANTS TypeOK NeverBricked
PROPERTIES InfoIsReconcilable
CHECK_DEADLOCK FALSE
