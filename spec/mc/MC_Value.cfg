\* C02 C04 C05 C16 (and every other clause): 3 accounts / 1 validator, transfers, staking, unstaking, withdrawals and
\* invalid variants; 3 blocks x 2 transactions; all legal consensus inputs without evidence
SPECIFICATION Spec
CONSTANTS
  Rank <- cRank
  Accts <- cAccts
  GenVals <- cGenVals
  Menu <- cMenu
  SenderSet <- cSenders
  MaxBlocks = 2
  WarmBlocks = 0
  MaxVals = 2
  MaxTxs = 2
  AllowEvidence = FALSE
  AllowAbsent = FALSE
  MaxChecks = 0
  AllowRestart = FALSE
  AllowNoProposer = TRUE
  KnownD8 = TRUE
INVARIANT NoViolation
CONSTRAINT Bound
CHECK_DEADLOCK FALSE
