----------------------------- MODULE MC_Restart -----------------------------
(* constants of the MC_Restart configuration: staking that changes the validator membership, a governance change of the
   validator count, and a process restart at any block boundary *)
EXTENDS MC_Rigo
cRank == [a1 |-> 1, a2 |-> 2, a3 |-> 3, newcomer |-> 5, zero |-> 0, stranger |-> 9]
cAccts == [a1 |-> 2, a2 |-> 2, a3 |-> 6]
cGenVals == [a1 |-> 3, a2 |-> 2]
cMenu == {"staking", "unstaking"}
cSenders == {"a2", "a3"}
=============================================================================
