\* the stake limiter in the model (C05 limiter clause, C10-C12 with three validators): 4 accounts / 3 validators (powers 4,3,3) on three seats
\* plus an outsider, staking, delegation, unstaking; evidence and absences; 2 warm-up blocks + 3 blocks x 2 transactions
SPECIFICATION Spec
CONSTANTS
  Rank <- cRank
  Accts <- cAccts
  GenVals <- cGenVals
  Menu <- cMenu
  SenderSet <- cSenders
  MaxBlocks = 2
  WarmBlocks = 2
  MaxVals = 3
  MaxTxs = 2
  AllowEvidence = TRUE
  AllowAbsent = FALSE
  MaxChecks = 0
  AllowRestart = FALSE
  AllowNoProposer = FALSE
  KnownD8 = TRUE
INVARIANT NoViolation
CONSTRAINT Bound
CHECK_DEADLOCK FALSE
