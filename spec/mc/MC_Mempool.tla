----------------------------- MODULE MC_Mempool -----------------------------
(* constants of the MC_Mempool configuration: mempool checks (CheckTx) of every transaction of the menu interleaved at every point of the
   blocks; two validators and an outsider; transfers, staking, unstaking; valid and invalid variants *)
EXTENDS MC_Rigo
cRank == [a1 |-> 1, a2 |-> 2, a3 |-> 3, newcomer |-> 5, zero |-> 0, stranger |-> 9]
cAccts == [a1 |-> 2, a2 |-> 2, a3 |-> 5]
cGenVals == [a1 |-> 4, a2 |-> 3]
cMenu == {"transfer", "staking", "unstaking", "invalid"}
cSenders == {"a1", "a3"}

\* reachability witnesses (expected to be VIOLATED when checked as invariants): the scratch view really differs from the committed state,
\* and a mempool check is refused because of an earlier mempool check
MemNeverDiffers == s.mem.accts = s.accts \/ phase # "idle"
=============================================================================
