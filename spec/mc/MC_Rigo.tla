------------------------------- MODULE MC_Rigo -------------------------------
(***************************************************************************)
(* Bounded model of the application in its consensus environment:          *)
(* RigoCore.tla driven block by block by every legal choice of the         *)
(* consensus engine (LastCommitInfo of the validator set two updates back, *)
(* absentees only while more than 2/3 of the power signs, evidence,        *)
(* proposer or none) and by a state-aware menu of transactions (valid and  *)
(* invalid ones of every native type).                                     *)
(*                                                                         *)
(* The invariant is that NO clause of ANY property of RigoProps.tla is     *)
(* violated by any step: the same Checks / NextMon (RigoMon.tla) that      *)
(* judge the traces recorded from the real code judge the model's steps.   *)
(***************************************************************************)
EXTENDS RigoCore, RigoMon

CONSTANTS Rank,          \* [name -> Nat]: byte order of the addresses
          MaxBlocks, MaxTxs,
          Accts,         \* account names with their genesis balance in units of 10^18: [name -> Nat]
          GenVals,       \* genesis validators: [name -> power]
          Menu,          \* which transaction kinds the menu offers (subset of the type names)
          SenderSet,     \* accounts that send transactions
          WarmBlocks,    \* number of empty blocks executed before the exploration starts (2: the validator set is reported)
          MaxVals,       \* governance: maximum validator count (the genesis validators must fit)
          AllowEvidence, AllowAbsent, AllowNoProposer,
          AllowRestart,  \* the process may be restarted at any block boundary
          MaxChecks,     \* number of mempool checks (CheckTx of any transaction of the menu) that may be interleaved anywhere
          KnownD8        \* TRUE: tolerate the clauses of known finding D8 (genesis validator changed in block 1)

VARIABLES s, pre, mon, phase, ntx, ctr, vals, bad, g1changed, nchk
mvars == <<s, pre, mon, phase, ntx, ctr, vals, bad, g1changed, nchk>>

Gov0 ==
  [version |-> 1, maxValidatorCnt |-> MaxVals, minValidatorStake |-> PowerAmount(2), minDelegatorStake |-> <<>>, rewardPerPower |-> <<7>>,
   lazyRewardBlocks |-> 1, lazyApplyingBlocks |-> 1, gasPrice |-> <<2>>, minTrxGas |-> <<3>>, maxTrxGas |-> <<999, 999>>,
   maxBlockGas |-> <<999, 999>>, minVotingPeriodBlocks |-> 1, maxVotingPeriodBlocks |-> 2, minSelfStakeRatio |-> 30,
   maxUpdatableStakeRatio |-> 60, maxIndividualStakeRatio |-> 70, slashRatio |-> 50, signedBlocksWindow |-> 2, minSignedBlocks |-> 2]

GenesisState ==
  LET delegs == [v \in DOMAIN GenVals |->
                   [self |-> GenVals[v], total |-> GenVals[v], slashed |-> 0, missed |-> <<>>, pub |-> 33,
                    stakes |-> <<[id |-> "g" \o v, from |-> v, to |-> v, pow |-> GenVals[v], start |-> 1, refund |-> 0]>>]]
  IN [h |-> 0, inblock |-> FALSE, lastH |-> 0, feeSum |-> <<>>, txCount |-> 0,
      accts |-> [a \in DOMAIN Accts |-> [bal |-> BAdd(PowerAmount(Accts[a]), <<500>>), nonce |-> 0, code |-> 0, name |-> "", url |-> ""]],
      delegs |-> delegs, frozen |-> <<>>, rewards |-> [x \in {} |-> 0], props |-> [x \in {} |-> 0], fprops |-> [x \in {} |-> 0],
      gov |-> Gov0, prevGov |-> Gov0, govLedger |-> [some |-> TRUE, v |-> Gov0], govPending |-> [some |-> FALSE],
      vol |-> [lastVals |-> <<>>, allDelegs |-> [x \in {} |-> 0], limiter |-> NoLimiter, rwdHash |-> "r", evmRoot |-> "r", evmHeight |-> 0],
      tree |-> [delegs |-> [x \in {} |-> 0], frozen |-> <<>>, props |-> [x \in {} |-> 0], fprops |-> [x \in {} |-> 0]],
      hist |-> [x \in {} |-> 0], docs |-> [x \in {} |-> 0], delivered |-> {}, proposer |-> "none", rank |-> Rank,
      \* the genesis state is not a committed version: until block 1 is committed the mempool sees nothing
      mem |-> [accts |-> [x \in {} |-> 0], delegs |-> [x \in {} |-> 0], frozen |-> <<>>, rewards |-> [x \in {} |-> 0],
               props |-> [x \in {} |-> 0], limiter |-> NoLimiter]]

GenesisEvent == [ev |-> "Genesis", post |-> GenesisState, apphash |-> "h",
                 validators |-> LET order == AscSeq(Rank, DOMAIN GenVals) IN [i \in 1..Len(order) |-> [v |-> order[i], pow |-> GenVals[order[i]]]]]

Live(st) == [a \in LiveAccts(st) |-> st.accts[a]]
Committed(st) ==
  [h |-> st.h, accts |-> Live(st), delegs |-> st.delegs, rewards |-> st.rewards, props |-> st.props, fprops |-> st.fprops,
   gov |-> st.gov, totalPower |-> BondedPower(st), stakesOf |-> <<>>, raw |-> <<>>]

\* n empty blocks (everybody signs, first validator proposes) executed functionally from the genesis
EmptyHeader(H) ==
  LET order == AscSeq(Rank, DOMAIN GenVals) IN
  [h |-> H, proposer |-> order[1], evidence |-> <<>>,
   votes |-> IF H >= 2 THEN [i \in 1..Len(order) |-> [v |-> order[i], pow |-> GenVals[order[i]], signed |-> TRUE]] ELSE <<>>]

RECURSIVE Warm(_)
Warm(n) ==
  IF n = 0 THEN [s |-> GenesisState, mon |-> GenesisMon(GenesisEvent, 1)]
  ELSE LET w == Warm(n - 1)
           hd == EmptyHeader(n)
           b == BeginBlock(w.s, hd)
           eb == [ev |-> "BeginBlock", h |-> n, proposer |-> hd.proposer, votes |-> hd.votes, evidence |-> <<>>, panic |-> "", resp |-> b.resp]
           m1 == NextMon(eb, w.s, b.s, w.mon)
           en == EndBlock(b.s)
           ee == [ev |-> "EndBlock", h |-> n, resp |-> en.resp, panic |-> ""]
           m2 == NextMon(ee, b.s, en.s, m1)
           c == Commit(en.s)
           ec == [ev |-> "Commit", h |-> n, resp |-> c.resp, panic |-> "", committed |-> Committed(c.s)]
       IN [s |-> c.s, mon |-> NextMon(ec, en.s, c.s, m2)]

Init ==
  /\ s = Warm(WarmBlocks).s /\ pre = s /\ mon = Warm(WarmBlocks).mon
  /\ phase = "idle" /\ ntx = 0 /\ ctr = 0
  /\ vals = [prev |-> GenVals, cur |-> GenVals, next |-> GenVals]
  /\ bad = {} /\ g1changed = FALSE /\ nchk = 0

---------------------------------------------------------------------------
(* the consensus engine *)

TotalPow(vs) == SumSet(vs, DOMAIN vs)
Subsets(S) == SUBSET S

Headers(H) ==
  LET prev == vals.prev
      absents == IF H >= 2 /\ AllowAbsent
                   THEN {A \in Subsets(DOMAIN prev) : 3 * (TotalPow(prev) - SumSet(prev, A)) > 2 * TotalPow(prev)} ELSE {{}}
      evids == IF H >= 2 /\ AllowEvidence
                 THEN {<<>>} \cup {<<[v |-> v, pow |-> prev[v], h |-> H - 1]>> : v \in DOMAIN prev} \cup {<<[v |-> "stranger", pow |-> 1, h |-> H - 1]>>}
                 ELSE {<<>>}
      props == (IF DOMAIN vals.cur = {} THEN {} ELSE {CHOOSE v \in DOMAIN vals.cur : \A w \in DOMAIN vals.cur : Rank[v] <= Rank[w]})
               \cup (IF AllowNoProposer THEN {"none"} ELSE {})
      order == AscSeq(Rank, DOMAIN prev)
  IN {[h |-> H, proposer |-> p, evidence |-> ev,
       votes |-> IF H >= 2 THEN [i \in 1..Len(order) |-> [v |-> order[i], pow |-> prev[order[i]], signed |-> order[i] \notin A]] ELSE <<>>]
        : p \in props, ev \in evids, A \in absents}

ApplyUps(vs, ups) == Fold(vs, ups)

---------------------------------------------------------------------------
(* the transaction menu (state-aware: roughly half of the offers are valid in s) *)

BaseTx(type, from, to, amount, payload) ==
  [type |-> type, hash |-> "t" \o ToString(ctr), from |-> from, to |-> to, amount |-> amount, nonce |-> Nonce(s, from),
   gas |-> <<3>>, gasPrice |-> s.gov.gasPrice, auth |-> "valid", payload |-> payload, fromLen |-> 20, toLen |-> 20]

NoPayload == [kind |-> "none"]
Senders == SenderSet

Offers ==
  (IF "transfer" \in Menu THEN
     UNION {{BaseTx("transfer", f, t, amt, NoPayload) : t \in (DOMAIN Accts \ {f}) \cup {"newcomer"}, amt \in {PowerAmount(1), <<1>>}} : f \in Senders} ELSE {})
  \cup
  (IF "staking" \in Menu THEN
     UNION {{BaseTx("staking", f, t, amt, NoPayload) : t \in {f} \cup DOMAIN s.delegs, amt \in {PowerAmount(1), PowerAmount(2), <<5>>}} : f \in Senders} ELSE {})
  \cup
  (IF "unstaking" \in Menu THEN
     {BaseTx("unstaking", f, st.to, <<>>, [kind |-> "unstaking", stake |-> st.id, len |-> 32]) : st \in AllStakes(s), f \in Senders} ELSE {})
  \cup
  (IF "withdraw" \in Menu THEN
     UNION {{BaseTx("withdraw", f, f, <<>>, [kind |-> "withdraw", req |-> r]) : r \in {<<>>, Cum(s, f), BAdd(Cum(s, f), <<1>>)}} : f \in DOMAIN s.rewards} ELSE {})
  \cup
  (IF "proposal" \in Menu THEN
     {BaseTx("proposal", f, "zero", <<>>,
             [kind |-> "proposal", start |-> s.h + 1, period |-> pd, apply |-> s.h + 1 + pd + 1, optType |-> 257,
              opts |-> <<[doc |-> "docA", fields |-> [valid |-> TRUE, f |-> [gasPrice |-> <<4>>]]],
                         [doc |-> "docB", fields |-> [valid |-> TRUE, f |-> [lazyRewardBlocks |-> 2, slashRatio |-> 34]]]>>])
        : f \in Senders, pd \in {1, 3}} ELSE {})
  \cup
  (IF "voting" \in Menu THEN
     {BaseTx("voting", f, "zero", <<>>, [kind |-> "voting", prop |-> id, choice |-> c]) : f \in Senders, id \in DOMAIN s.props, c \in {0, 1, 2}} ELSE {})
  \cup
  (IF "setdoc" \in Menu THEN
     {BaseTx("setdoc", f, "zero", <<>>, [kind |-> "setdoc", name |-> "n", url |-> "u", nameLen |-> l, urlLen |-> 1]) : f \in Senders, l \in {1, 2049}} ELSE {})

\* deliberately invalid variants of an offer
Spoil(tx) == {tx, [tx EXCEPT !.nonce = @ + 1], [tx EXCEPT !.auth = "wrongkey"]}
                 \cup (IF tx.type = "transfer" THEN {[tx EXCEPT !.gasPrice = <<3>>], [tx EXCEPT !.gas = <<1>>]} ELSE {})

Txs == IF "invalid" \in Menu THEN UNION {Spoil(tx) : tx \in Offers} ELSE Offers

---------------------------------------------------------------------------
(* steps: each renders the call as an event of the trace format and judges it with the shared predicates *)

Tolerated(c) ==
  KnownD8 /\ g1changed
  /\ c \in {"C13: early-height issuance differs from power x reward-per-power over the genesis stakes of the validators that signed",
            "C10: the consensus set contains a delegatee whose own stake is below the minimum validator stake (or that does not exist)",
            "C10: the consensus set does not have min(max validator count, eligible delegatees) members",
            "C15: the recorded voters are not the current validators with their current power",
            "C15: recorded voting power / two-thirds threshold is wrong",
            "C15: a proposal by an account that is not a current validator was accepted"}

Judge(e, post) ==
  /\ bad' = {c \in Checks(e, s, post, mon) : ~Tolerated(c)}
  /\ mon' = NextMon(e, s, post, mon)
  /\ pre' = s
  /\ s' = post

DoBegin ==
  /\ phase = "idle" /\ s.lastH < WarmBlocks + MaxBlocks
  /\ \E hd \in Headers(s.lastH + 1) :
       LET r == BeginBlock(s, hd)
           e == [ev |-> "BeginBlock", h |-> hd.h, proposer |-> hd.proposer, votes |-> hd.votes, evidence |-> hd.evidence, panic |-> "", resp |-> r.resp]
       IN Judge(e, r.s)
  /\ phase' = "block" /\ ntx' = 0
  /\ UNCHANGED <<ctr, vals, g1changed, nchk>>

DoDeliver ==
  /\ phase = "block" /\ ntx < MaxTxs
  /\ \E tx \in Txs :
       LET r == DeliverTx(s, tx)
           e == [ev |-> "DeliverTx", tx |-> tx, resp |-> r.resp, panic |-> ""]
       IN Judge(e, r.s)
  /\ ntx' = ntx + 1 /\ ctr' = ctr + 1
  /\ UNCHANGED <<phase, vals, g1changed, nchk>>

DoEnd ==
  /\ phase = "block"
  /\ LET r == EndBlock(s)
         e == [ev |-> "EndBlock", h |-> s.h, resp |-> r.resp, panic |-> ""]
     IN /\ Judge(e, r.s)
        /\ vals' = [prev |-> vals.cur, cur |-> vals.next, next |-> ApplyUps(vals.next, r.resp.valUpdates)]
  /\ phase' = "ended"
  /\ UNCHANGED <<ntx, ctr, g1changed, nchk>>

DoCommit ==
  /\ phase = "ended"
  /\ LET r == Commit(s)
         e == [ev |-> "Commit", h |-> s.h, resp |-> r.resp, panic |-> "", committed |-> Committed(r.s)]
     IN /\ Judge(e, r.s)
        /\ g1changed' = IF s.h = 1 THEN r.s.delegs # GenesisState.delegs ELSE g1changed
  /\ phase' = "idle"
  /\ UNCHANGED <<ntx, ctr, vals, nchk>>

\* process restart at a block boundary: everything that influences execution must be rebuilt (C07)
DoRestart ==
  /\ AllowRestart /\ phase = "idle" /\ s.lastH >= 1 /\ s.lastH <= WarmBlocks + MaxBlocks /\ pre # s
  /\ LET r == Restart(s)
         e == [ev |-> "Restart", resp |-> [h |-> r.resp.h, hash |-> mon.lastHash], panic |-> ""]
     IN Judge(e, r.s)
  /\ UNCHANGED <<phase, ntx, ctr, vals, g1changed, nchk>>

\* a mempool check of any transaction of the menu, at any point between the consensus calls (C06)
DoCheck ==
  /\ nchk < MaxChecks /\ s.lastH < WarmBlocks + MaxBlocks
  /\ \E tx \in Txs :
       LET r == CheckTx(s, tx)
           e == [ev |-> "CheckTx", tx |-> tx, resp |-> r.resp, panic |-> ""]
       IN Judge(e, r.s)
  /\ nchk' = nchk + 1 /\ ctr' = ctr + 1
  /\ UNCHANGED <<phase, ntx, vals, g1changed>>

Next == DoBegin \/ DoDeliver \/ DoEnd \/ DoCommit \/ DoRestart \/ DoCheck

Spec == Init /\ [][Next]_mvars

\* no clause of any property is violated by any step of the model
NoViolation == bad = {}

\* the bounded exploration never empties the consensus validator set (the environment stops there)
ValsNonEmpty == DOMAIN vals.next # {}
Bound == DOMAIN vals.next # {} /\ DOMAIN vals.cur # {}
=============================================================================
