SPECIFICATION Spec
CONSTANT N = 300
INVARIANT AllOK
