\* behaviour generation for C18 (tlc -simulate): same model, long walks, no state constraint
SPECIFICATION MCSpec
CONSTANTS
  Key = {1, 2}
  Val = {1, 2}
  TombFirst = FALSE
  MaxCommits = 99
  MaxTomb = 99
  MaxOps = 60
CHECK_DEADLOCK FALSE
