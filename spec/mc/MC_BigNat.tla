----------------------------- MODULE MC_BigNat -----------------------------
(* Checks BigNat against TLC's integer arithmetic on all pairs below N,    *)
(* plus the constants.                                                     *)
EXTENDS BigNat, TLC
CONSTANT N
VARIABLE done
Init == done = FALSE
Next == done' = TRUE
Spec == Init /\ [][Next]_done

Nums == 0..N
Sample == {0, 1, 999, 1000, 1001, 999999, 1000000, 1234567, 2000000}

AllOK ==
  /\ \A a \in Nums \cup Sample : IsBig(FromNat(a)) /\ ToNat(FromNat(a)) = a
  /\ \A a, b \in Nums \cup Sample :
       LET x == FromNat(a)  y == FromNat(b) IN
       /\ BAdd(x, y) = FromNat(a + b)
       /\ (BLeq(x, y) <=> a <= b) /\ (BLt(x, y) <=> a < b)
       /\ (a >= b => BSub(x, y) = FromNat(a - b))
       /\ ((a <= 40000 /\ b <= 40000) \/ b <= 1000 \/ a <= 1000 => BMul(x, y) = FromNat(a * b) /\ BMul(y, x) = FromNat(a * b))
       /\ (b <= 1000 => BMulSmall(x, b) = FromNat(a * b))
  /\ PowerAmount(0) = <<>> /\ PowerAmount(7) = BMul(FromNat(7), E18)
  /\ IsMultE18(PowerAmount(3)) /\ ~IsMultE18(BAdd(PowerAmount(3), <<1>>)) /\ ~IsMultE18(<<>>)
  /\ BDivE18(BAdd(PowerAmount(12345), <<999>>)) = FromNat(12345)
  /\ Len(Two256) = 26 /\ Two256 = BMulSmall(Two255, 2) /\ IsBig(Two256) /\ Two256 = Pow2(256) /\ Two255 = Pow2(255)
  /\ BSumSeq(<<FromNat(999), FromNat(1), FromNat(1000)>>) = FromNat(2000)
  /\ BSumFun([x \in {1, 2, 3} |-> FromNat(x * 999)], {1, 2, 3}) = FromNat(5994)
=============================================================================
