----------------------------- MODULE MC_Limiter -----------------------------
(* constants of the MC_Limiter configuration: three validators (powers 4, 3, 3) on three seats and an outsider that can stake its way in,
   two warm-up blocks so that three validators are reported and the stake limiter is consulted; staking, delegation and unstaking *)
EXTENDS MC_Rigo
cRank == [a1 |-> 1, a2 |-> 2, a3 |-> 3, a4 |-> 4, newcomer |-> 5, zero |-> 0, stranger |-> 9]
cAccts == [a1 |-> 3, a2 |-> 2, a3 |-> 2, a4 |-> 6]
cGenVals == [a1 |-> 4, a2 |-> 3, a3 |-> 3]
cMenu == {"staking", "unstaking"}
cSenders == {"a1", "a4"}

\* the limiter is really consulted and really refuses: reachability witnesses (expected to be VIOLATED when checked as invariants)
NeverRefused == ~(phase = "block" /\ \E tx \in Txs : /\ tx.type = "staking" /\ tx.auth = "valid" /\ tx.nonce = Nonce(s, tx.from)
                                                       /\ Common0(s, tx, TRUE) /\ Common1(s, tx) /\ ValidStaking(s, tx)
                                                       /\ Len(s.vol.lastVals) >= 3 /\ ~LimitStaking(s, tx).ok)
NeverUpdated == s.vol.limiter.updated = 0
=============================================================================
