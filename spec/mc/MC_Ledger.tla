----------------------------- MODULE MC_Ledger -----------------------------
EXTENDS Ledger
CONSTANTS MaxCommits, MaxTomb, MaxOps
VARIABLE nops
\* bounded exploration: ops counted, commits and tombstones capped
MCInit == Init /\ nops = 0
MCNext == nops < MaxOps /\ Next /\ nops' = nops + 1
Bound == /\ Len(versions) <= MaxCommits
         /\ \A k \in Key : fTomb[k] <= MaxTomb /\ cTomb[k] <= MaxTomb
MCSpec == MCInit /\ [][MCNext]_<<vars, nops>>
\* ret and nops do not influence behaviour
MCView == <<tree, versions, fPend, fTomb, cPend, cTomb, lastW, cLastW, ret>>
=============================================================================
