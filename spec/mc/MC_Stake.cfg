\* C10 C11 C12 C13 C14 (and every other clause): 4 accounts / 2 validators (powers 4,3) on two seats plus a candidate, staking, delegation,
\* unstaking by owner and stranger, withdrawals; every legal pattern of absences, evidence (known / unknown validator) and
\* proposer; 4 blocks x 1 transaction
SPECIFICATION Spec
CONSTANTS
  Rank <- cRank
  Accts <- cAccts
  GenVals <- cGenVals
  Menu <- cMenu
  SenderSet <- cSenders
  MaxBlocks = 4
  WarmBlocks = 0
  MaxVals = 2
  MaxTxs = 1
  AllowEvidence = TRUE
  AllowAbsent = TRUE
  MaxChecks = 0
  AllowRestart = FALSE
  AllowNoProposer = FALSE
  KnownD8 = TRUE
INVARIANT NoViolation
CONSTRAINT Bound
CHECK_DEADLOCK FALSE
