SPECIFICATION SimSpec
CONSTANTS
  Heights = {1, 2, 3}
  Rounds = {0, 1}
  Bids = {0, 1, 2}
  Stamps = {1, 2, 3}
  MaxSteps = 30
CONSTRAINT SimPrint
CHECK_DEADLOCK FALSE
