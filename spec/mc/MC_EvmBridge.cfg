\* C17 bridge design check (the code's tagging rule): 3 addresses, nesting up to 3 snapshots, <= 6 steps per transaction,
\* every interleaving of first accesses, writes, nested snapshots and reverts, both transaction outcomes
SPECIFICATION Spec
CONSTANTS
  Addr = {1, 2, 3}
  MaxOps = 6
  TagOffset = 1
  DropIf = "gt"
INVARIANTS NoStaleRead SyncNotReverted FailureIsInvisible WriteBackExact
CHECK_DEADLOCK FALSE
