\* C15 C14 C16 (and every other clause): 3 accounts / 2 validators with powers 3 and 2 (threshold floor(2*5/3) = 3 is crossed
\* both ways), proposals with valid and invalid periods by validators and an outsider, votes / re-votes / bad choices at every
\* height relative to the window, evidence against voters, parameters adopted and applied; 6 blocks x 1 transaction
SPECIFICATION Spec
CONSTANTS
  Rank <- cRank
  Accts <- cAccts
  GenVals <- cGenVals
  Menu <- cMenu
  SenderSet <- cSenders
  MaxBlocks = 5
  WarmBlocks = 2
  MaxVals = 2
  MaxTxs = 1
  AllowEvidence = TRUE
  AllowAbsent = FALSE
  MaxChecks = 0
  AllowRestart = FALSE
  AllowNoProposer = FALSE
  KnownD8 = TRUE
INVARIANT NoViolation
CONSTRAINT Bound
CHECK_DEADLOCK FALSE
