SPECIFICATION EnumSpec
CONSTANTS
  MaxHeight = 11
  AsBuilt = TRUE
CONSTRAINT Collect
POSTCONDITION Report
CHECK_DEADLOCK FALSE
