----------------------------- MODULE MC_PrivVal -----------------------------
EXTENDS PrivVal
CONSTANT MaxSteps
VARIABLE n
MCInit == Init /\ n = 0
MCNext == n < MaxSteps /\ Next /\ n' = n + 1
MCSpec == MCInit /\ [][MCNext]_<<vars, n>>
=============================================================================
