\* C07 (and every other clause): 3 accounts / 2 validators on two seats, a candidate that stakes its way in and out,
\* restart allowed at every block boundary; 4 blocks x 1 transaction after 2 warm-up blocks
SPECIFICATION Spec
CONSTANTS
  Rank <- cRank
  Accts <- cAccts
  GenVals <- cGenVals
  Menu <- cMenu
  SenderSet <- cSenders
  MaxBlocks = 4
  WarmBlocks = 2
  MaxVals = 2
  MaxTxs = 1
  AllowEvidence = FALSE
  AllowAbsent = FALSE
  MaxChecks = 0
  AllowRestart = TRUE
  AllowNoProposer = FALSE
  KnownD8 = TRUE
INVARIANT NoViolation
CONSTRAINT Bound
CHECK_DEADLOCK FALSE
