\* C06 at design level (and the mempool's scratch view of RigoCore.tla): one mempool check of any transaction of the menu at any point
\* of 2 blocks x 1 transaction (after one warm-up block: the genesis state is not visible to the mempool); every clause of every property
\* judges the CheckTx steps as well (C06: nothing block execution reads may change)
SPECIFICATION Spec
CONSTANTS
  Rank <- cRank
  Accts <- cAccts
  GenVals <- cGenVals
  Menu <- cMenu
  SenderSet <- cSenders
  MaxBlocks = 2
  WarmBlocks = 1
  MaxVals = 2
  MaxTxs = 1
  MaxChecks = 1
  AllowEvidence = FALSE
  AllowAbsent = FALSE
  AllowRestart = FALSE
  AllowNoProposer = FALSE
  KnownD8 = TRUE
INVARIANT NoViolation
CONSTRAINT Bound
CHECK_DEADLOCK FALSE
