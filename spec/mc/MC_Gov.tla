------------------------------- MODULE MC_Gov -------------------------------
(* constants of the MC_Gov configuration: proposals, votes, re-votes, outsiders, slashing of voters *)
EXTENDS MC_Rigo
cRank == [a1 |-> 1, a2 |-> 2, a3 |-> 3, newcomer |-> 5, zero |-> 0, stranger |-> 9]
cAccts == [a1 |-> 1, a2 |-> 1, a3 |-> 1]
cGenVals == [a1 |-> 3, a2 |-> 2]
cMenu == {"proposal", "voting"}
cSenders == {"a1", "a2", "a3"}
=============================================================================
