------------------------------ MODULE MC_Stake ------------------------------
(* constants of the MC_Stake configuration: two validators (powers 4 and 3) on two seats, a third account that can stake its way in; evidence, absences, jailing window 2 *)
EXTENDS MC_Rigo
cRank == [a1 |-> 1, a2 |-> 2, a3 |-> 3, a4 |-> 4, newcomer |-> 5, zero |-> 0, stranger |-> 9]
cAccts == [a1 |-> 2, a2 |-> 2, a3 |-> 5, a4 |-> 4]
cGenVals == [a1 |-> 4, a2 |-> 3]
cMenu == {"staking", "unstaking", "withdraw"}
cSenders == {"a1", "a3"}
=============================================================================
