\* C18 design check, AS-BUILT read order (D1): ReadYourWrites is expected to FAIL: 2 keys x 2 values, <= 2 commits, <= 2 tombstones/key, <= 7 ops
SPECIFICATION MCSpec
CONSTANTS
  Key = {1, 2}
  Val = {1, 2}
  TombFirst = TRUE
  MaxCommits = 2
  MaxTomb = 2
  MaxOps = 7
CONSTRAINT Bound
INVARIANTS TypeOK ReadYourWrites
PROPERTIES CheckInvisibleToConsensus CommitExact HistoryImmutable
CHECK_DEADLOCK FALSE
