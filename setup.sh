#!/bin/sh
# Offline setup: warm the Go build cache for the conformance driver (built with -tags verif
# against /repo) and check that TLC starts. Everything comes from files on disk.
set -e
cd "$(dirname "$0")/harness"
export GOFLAGS=-mod=mod GOPROXY=off GOSUMDB=off GOTOOLCHAIN=local
cp /repo/go.sum go.sum
mkdir -p ../.build
go build -tags verif -o ../.build/rigodrv ./cmd/rigodrv
java -cp /opt/veriftools/tla/tla2tools.jar tlc2.TLC -h >/dev/null 2>&1 || true
echo "setup ok"
