#!/usr/bin/env python3
"""Debug helper: run RigoConf (model conformance) on a trace file and summarise the differences.
usage: vconf.py <trace.ndjson> [specdir]"""
import json, sys, os, collections
sys.path.insert(0, os.path.dirname(os.path.abspath(__file__)))
import vlib

def main():
    trace = sys.argv[1]
    sd = sys.argv[2] if len(sys.argv) > 2 else None
    if sd:
        files = [os.path.join(sd, f) for f in os.listdir(sd) if f.endswith(".tla") or f == "RigoConf.cfg"]
    else:
        files = vlib.spec_files("BigNat.tla", "RigoProps.tla", "RigoCore.tla", "RigoConf.tla", "RigoConf.cfg")
    res = vlib.run_tlc(files, "RigoConf.tla", "RigoConf.cfg", cwd_files={"trace.ndjson": os.path.abspath(trace)}, timeout=3000)
    if "DIFFS" not in res.prints:
        print(res.output[-3000:]); return
    print(res.prints["CONSUMED"], res.prints["COUNTS"], "%.1fs" % res.wall)
    ds = res.print_json("DIFFS")
    c = collections.Counter((d["ev"], tuple(sorted(d["fields"])), d.get("tag", "").split(":")[0]) for d in ds)
    for k, n in c.most_common():
        print(n, k)
    seen = set()
    for d in ds:
        k = (d["ev"], tuple(sorted(d["fields"])))
        if k in seen or not d.get("detail"):
            continue
        seen.add(k)
        print("line", d["line"], d["ev"], d["fields"], d.get("tag"), json.dumps(d["detail"][0])[:1200])
main()
