#!/bin/sh
# usage: tlcrun.sh <workers> <cfg> <module> [extra tlc args]   (run in the directory holding the spec files)
w=$1; cfg=$2; mod=$3; shift 3
exec java -XX:+UseParallelGC -Xss64m -cp /opt/veriftools/tla/tla2tools.jar:/opt/veriftools/tla/CommunityModules-deps.jar tlc2.TLC -workers $w -metadir ./md-$$ -config $cfg "$@" $mod
