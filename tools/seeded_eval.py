#!/usr/bin/env python3
"""Confirm a seeded change and run checks against it.
usage: seeded_eval.py <seed-dir (with SEED/patch.diff, demo, meta.json)> <name> <check-id>... [--tier quick|thorough]
Copies the artefacts to /verif/seeded/<name>/, applies the patch to /repo, confirms build + baseline + demo
(fails with / passes without), runs the checks, reverts /repo, and writes the outcome into meta.json."""
import json, os, shutil, subprocess, sys
ENV = dict(os.environ, GOFLAGS="-mod=mod", GOPROXY="off", GOSUMDB="off", GOTOOLCHAIN="local")
BASE = ("go build ./... && go test -mod=mod -vet=off -count=1 ./cmd/... ./ctrlers/account/... ./ctrlers/stake/... ./ctrlers/types/... "
        "./ctrlers/vm/... ./ledger/... ./libs/sfeeder/server/... ./node/... ./sfeeder/common/... ./types/...")

REPO = os.environ.get("VERIF_REPO", "/repo")   # evaluate in another worktree while /repo is in use by a background run
ENV["VERIF_REPO"] = REPO


def sh(cmd, cwd=None):
    p = subprocess.run(cmd, shell=True, cwd=cwd or REPO, env=ENV, stdout=subprocess.PIPE, stderr=subprocess.STDOUT, text=True)
    return p.returncode, p.stdout

def main():
    args = sys.argv[1:]
    tier = "quick"
    if "--tier" in args:
        i = args.index("--tier"); tier = args[i + 1]; del args[i:i + 2]
    src, name, checks = args[0], args[1], args[2:]
    dst = os.path.join("/verif/seeded", name)
    os.makedirs(dst, exist_ok=True)
    seed = os.path.join(src, "SEED") if os.path.isdir(os.path.join(src, "SEED")) else dst
    if seed != dst:
        for f in os.listdir(seed):
            shutil.copy(os.path.join(seed, f), dst)
    meta = json.load(open(os.path.join(dst, "meta.json")))
    assert sh("git status --porcelain")[1].strip() == "", REPO + " is dirty"
    demo = [f for f in os.listdir(dst) if f.endswith("_test.go")]
    demo_cmd = meta.get("demo_cmd", "")
    # where does the demo live? take the package from the demo_cmd (last ./pkg/ argument)
    pkg = [w for w in demo_cmd.replace("'", " ").split() if w.startswith("./")][-1].strip("/").lstrip("./") if demo_cmd else "node"
    run_demo = "go test -tags verif -mod=mod -vet=off -count=1 ./%s/ -run '%s'" % (pkg, "Seeded|seeded")
    out = {"tier": tier}
    try:
        for d in demo:
            shutil.copy(os.path.join(dst, d), os.path.join(REPO, pkg, d))
        rc0, o0 = sh(run_demo)
        out["demo_without_change"] = "pass" if rc0 == 0 else "FAIL"
        rc, o = sh("git apply %s 2>&1 || git apply --3way %s" % (os.path.join(dst, "patch.diff"), os.path.join(dst, "patch.diff")))
        out["patch_applies"] = sh("git status --porcelain")[1].strip() != ""
        rc1, o1 = sh(run_demo)
        out["demo_with_change"] = "fail" if rc1 != 0 else "PASSES"
        for d in demo:
            os.remove(os.path.join(REPO, pkg, d))
        rcb, ob = sh(BASE)
        if not (rcb == 0 and "FAIL" not in ob):
            # the stock suite has tests that fail now and then on a loaded machine (fixed file names under TMPDIR): once more
            out["baseline_first_failure"] = [l for l in ob.splitlines() if "FAIL" in l][:5]
            rcb, ob = sh(BASE)
        out["baseline_with_change"] = "pass" if rcb == 0 and "FAIL" not in ob else "FAIL"
        res = {}
        for c in checks:
            r, o = sh("./check %s %s" % (c, tier), cwd="/verif")
            viol = [l for l in o.splitlines() if l.startswith("VIOLATION")]
            first = ""
            for i, l in enumerate(o.splitlines()):
                if l.startswith("VIOLATION") and i + 1 < len(o.splitlines()):
                    first = o.splitlines()[i + 1].strip()[:300]; break
            res[c] = {"exit": r, "violations": len(viol), "first": first, "machinery": [l for l in o.splitlines() if l.startswith("MACHINERY")][:1]}
        out["checks"] = res
    finally:
        sh("git reset -q --hard HEAD; git clean -fdq -- node ctrlers ledger types libs cmd genesis rpc 2>/dev/null")
    meta["evaluation"] = out
    json.dump(meta, open(os.path.join(dst, "meta.json"), "w"), indent=1)
    print(name, json.dumps(out, indent=1))

main()
