"""Table-driven checks for the properties decided by RigoProps.tla on application traces."""
import json
import os

import vlib
from checks import appcommon

# per property: directed scenarios, random profiles (quick / thorough), outcome kinds that must be
# exercised on the unchanged tree (vacuity guard), bounded model config(s)
TABLE = {
    "C02": dict(evm=True, directed=["evm_price_above", "stake_amount_shapes", "many_new_accounts", "big_powers", "prefund_then_create", "evm_odd_addresses", "fee_edges", "evm_sweep_to_zero", "wrap_amount", "checktx_not_delivered", "evm_value", "evm_selfdestruct", "evm_nested_revert", "evm_mixed", "recreate_in_block", "genesis_twins_unbond", "twin_jail", "huge_stake", "same_block_withdraw",
                          "slash_then_unstake", "no_proposer_block", "many_unbonding", "forced_unbond"],
                quick=[dict(n=6, blocks=25), dict(n=4, blocks=20, boundary=True)],
                thorough=[dict(n=40, blocks=40), dict(n=40, blocks=40, seed_off=50), dict(n=30, blocks=30, boundary=True),
                          dict(n=30, blocks=60, maxtx=8, seed_off=70)],
                need=[("transfer", True), ("staking", True), ("unstaking", True), ("withdraw", True), ("evidence", True)]),
    "C04": dict(evm=True, directed=["many_new_accounts", "zero_gas_price", "evm_nested_revert", "evm_sweep_to_zero", "native_to_contract", "evm_basic", "evm_fail", "evm_mixed", "evm_selfdestruct", "transfer_to_created", "nonce_replay", "fee_edges", "setdoc_and_accounts"],
                quick=[dict(n=8, blocks=20, maxtx=7)],
                thorough=[dict(n=50, blocks=40, maxtx=8), dict(n=50, blocks=40, maxtx=8, seed_off=31)],
                need=[("transfer", True), ("transfer", False), ("staking", True)]),
    "C05": dict(evm=True, directed=["limiter_refusal_then_more", "evm_price_above", "foreign_unstake_small_set", "stake_amount_shapes", "many_new_accounts", "zero_gas_price", "evm_odd_addresses", "evm_rejected_then_more", "native_to_contract", "wrap_amount", "evm_fail", "evm_nested_revert", "fee_edges", "nonce_replay", "vote_window_edges", "forced_unbond", "huge_stake", "same_block_withdraw",
                          "setdoc_and_accounts", "price_change"],
                quick=[dict(n=8, blocks=20, maxtx=7), dict(n=3, blocks=15, boundary=True)],
                thorough=[dict(n=50, blocks=40, maxtx=8), dict(n=40, blocks=40, maxtx=8, seed_off=11), dict(n=30, blocks=30, boundary=True)],
                need=[("transfer", False), ("staking", False), ("unstaking", False), ("withdraw", False), ("proposal", False), ("voting", False)]),
    "C10": dict(directed=["jail_edges", "big_powers", "restart_after_first_block", "self_unstake_after_restart", "redistribute_same_total", "minstake_change", "restart_truncated", "valcount_change", "self_below_min", "validator_churn", "twin_jail", "forced_unbond", "slash_then_unstake", "recreate_in_block", "early_unbond"],
                quick=[dict(n=8, blocks=30, extra=["-prestart", "0.1"])],
                thorough=[dict(n=60, blocks=50), dict(n=60, blocks=50, seed_off=13)],
                need=[("staking", True), ("unstaking", True), ("absent", True)]),
    "C11": dict(directed=["jail_edges", "foreign_unstake_small_set", "limiter_refusal_then_more", "stake_amount_shapes", "big_powers", "self_unstake_after_restart", "tiny_stakes_slashed", "checktx_not_delivered", "self_below_min", "recreate_in_block", "forced_unbond", "slash_then_unstake", "genesis_twins_unbond", "validator_churn", "many_unbonding"],
                quick=[dict(n=8, blocks=25, extra=["-prestart", "0.1"])],
                thorough=[dict(n=60, blocks=50), dict(n=60, blocks=50, seed_off=17)],
                need=[("staking", True), ("unstaking", True), ("evidence", True)]),
    "C12": dict(directed=["jail_edges", "foreign_unstake_small_set", "big_powers", "self_unstake_after_restart", "tiny_stakes_slashed", "unbond_across_restart", "unbond_period_shortened", "checktx_not_delivered", "genesis_twins_unbond", "twin_jail", "forced_unbond", "many_unbonding", "slash_then_unstake"],
                quick=[dict(n=8, blocks=30, extra=["-prestart", "0.1"])],
                thorough=[dict(n=60, blocks=50), dict(n=60, blocks=50, seed_off=19)],
                need=[("unstaking", True), ("unstaking", False)]),
    "C13": dict(directed=["big_powers", "withdraw_without_issuance", "swap_delegators", "same_block_withdraw", "early_rewards", "early_unbond", "validator_churn", "twin_jail"],
                quick=[dict(n=8, blocks=25, extra=["-prestart", "0.1"])],
                thorough=[dict(n=60, blocks=50), dict(n=60, blocks=50, seed_off=23)],
                need=[("withdraw", True), ("withdraw", False), ("absent", True)]),
    "C14": dict(directed=["jail_edges", "window_grows_one_stale", "window_grows_two_stale", "absences_over_window", "big_powers", "tiny_stakes_slashed", "tiny_voter_slashed", "evidence_burst", "slash_then_unstake", "twin_jail", "vote_window_edges"],
                quick=[dict(n=8, blocks=30, extra=["-prestart", "0.1"])],
                thorough=[dict(n=60, blocks=50), dict(n=60, blocks=50, seed_off=29)],
                need=[("evidence", True), ("absent", True)]),
    "C15": dict(directed=["mixed_proposal_types", "big_powers", "tiny_voter_slashed", "voter_leaves_set", "many_proposals_one_block", "evidence_after_close", "evidence_burst", "vote_window_edges", "threshold_exact", "majority_lost", "two_proposals_one_block", "price_change", "many_unbonding"],
                quick=[dict(n=8, blocks=30)],
                thorough=[dict(n=60, blocks=50), dict(n=60, blocks=60, seed_off=37)],
                need=[("proposal", True), ("proposal", False), ("voting", True), ("voting", False)]),
    "C16": dict(evm=True, directed=["evm_price_above", "mixed_proposal_types", "zero_gas_price", "mingas_above_intrinsic", "native_to_contract", "evm_rejected_then_more", "evm_basic", "evm_value", "evm_fail", "evm_selfdestruct", "transfer_to_created", "fee_edges", "price_change", "no_proposer_block", "two_proposals_one_block", "same_block_withdraw", "many_unbonding"],
                quick=[dict(n=8, blocks=25, maxtx=7)],
                thorough=[dict(n=60, blocks=40, maxtx=8), dict(n=60, blocks=40, maxtx=8, seed_off=41)],
                need=[("transfer", True), ("transfer", False), ("withdraw", True)]),
    "C03": dict(evm=True, directed=["payload_injection", "forged_after_credit", "mutation_matrix", "nonce_replay"],
                directed_thorough=["forged_after_credit", "mutation_matrix_full", "mutation_matrix", "nonce_replay"],
                quick=[dict(n=4, blocks=20, maxtx=7)],
                thorough=[dict(n=40, blocks=40, maxtx=8), dict(n=20, blocks=30, boundary=True)],
                need=[("transfer", True), ("transfer", False), ("voting", True), ("proposal", True), ("setdoc", True), ("unstaking", True), ("withdraw", True)]),
    "C17": dict(directed=["zero_gas_price", "prefund_then_create", "evm_odd_addresses", "evm_sweep_to_zero", "evm_quiet_blocks", "evm_rejected_then_more", "native_to_contract", "evm_basic", "evm_value", "evm_nested_revert", "evm_selfdestruct", "evm_fail", "transfer_to_created", "evm_mixed"], evm=True,
                quick=[dict(n=8, blocks=25, maxtx=6)],
                thorough=[dict(n=60, blocks=40, maxtx=8), dict(n=60, blocks=40, maxtx=8, seed_off=47), dict(n=30, blocks=30, boundary=True, seed_off=53)],
                need=[("contract", True), ("contract", False), ("transfer", True)]),
    "C19": dict(directed=["mixed_proposal_types", "price_change", "query_in_flight", "setdoc_and_accounts", "vote_window_edges", "forced_unbond"],
                quick=[dict(n=6, blocks=20, extra=["-queries", "3", "-prestart", "0.15"])],
                thorough=[dict(n=40, blocks=40, extra=["-queries", "4", "-prestart", "0.1"]),
                          dict(n=40, blocks=40, seed_off=43, extra=["-queries", "4", "-prestart", "0.1"])],
                need=[("transfer", True), ("staking", True)]),
}

ASSUME = [
    "the consensus engine is simulated at the ABCI boundary (validator-set pipeline, LastCommitInfo, evidence) following Tendermint 0.34",
    "secp256k1 / sha256 / IAVL / goleveldb are trusted",
    "projection functions of the harness (read-only views built with -tags verif) are trusted; queries give a second, independent read path",
]


# situations (RigoMon!Witness) that the histories explored for a property must exhibit - otherwise its clauses were vacuous
WITNESS = {
    "C02": ["rewards issued", "matured unbonding stake refunded", "evidence against a bonded validator", "block with fees", "contract execution succeeds"],
    "C03": ["transfer transaction fails", "voting transaction succeeds"],
    "C04": ["transfer transaction succeeds", "transfer transaction fails", "contract execution succeeds", "contract execution fails"],
    "C05": ["staking transaction fails", "unstaking transaction fails", "voting transaction fails", "contract execution fails",
            "staking change refused while the stake limiter is active"],
    "C10": ["validator set changes", "validator removed from the set", "a new delegatee is created", "process restart"],
    "C11": ["a validator's own unstaking releases its delegators", "delegation to another account", "evidence against a bonded validator",
            "slashing forfeits a stake too small to be cut"],
    "C12": ["matured unbonding stake refunded", "a validator's own unstaking releases its delegators", "validator jailed for downtime (all stake unbonding)",
            "adopted parameters applied"],
    "C13": ["rewards issued", "absent validator", "withdraw transaction succeeds", "withdraw transaction fails"],
    "C14": ["evidence against a bonded validator", "evidence against an unknown / unbonded address", "several pieces of evidence in one block",
            "evidence against a voter of an open proposal", "validator jailed for downtime (all stake unbonding)", "slashing forfeits a stake too small to be cut"],
    "C15": ["proposal adopted", "proposal dropped for lack of majority", "adopted parameters applied", "parameters switch at commit", "re-vote",
            "evidence against a voter of an open proposal"],
    "C16": ["block with fees", "contract execution succeeds", "contract execution fails", "parameters switch at commit"],
    "C17": ["contract execution succeeds", "contract execution fails"],
    "C19": ["rewards issued", "matured unbonding stake refunded"],
}


def run(prop, tier, replay=None, mc=None):
    v = vlib.Verdict(prop, tier)
    cfg = TABLE[prop]
    if replay:
        tr = appcommon.replay_trace(replay, evm=cfg.get("evm", False))
        st = appcommon.collect(v, prop, [tr], [])
        return v.finish("model_checking", {"states": 1, "transitions": 1, "traces_validated_against_impl": st["traces"],
                                           "samples": appcommon.sample_events(tr, 3) or [{"replay": replay}]})
    mcres = mc(tier) if mc else None
    directed = cfg.get("directed_thorough", cfg["directed"]) if tier == "thorough" else cfg["directed"]
    traces, sdirs, dst = appcommon.gen_traces(tier, directed, cfg[tier], evm=cfg.get("evm", False))
    st = appcommon.collect(v, prop, traces, sdirs)
    missing = [k for k in cfg["need"] if tuple(k) not in st["kinds"]]
    missing += [w for w in WITNESS.get(prop, []) if w not in st["witnesses"]]
    if missing and not v.violations:
        raise vlib.MachineryError("the explored histories never exhibited %s (vacuous run / dead driver)" % missing)
    if st["unexpected"] and not v.violations:
        # on the unchanged tree every set-up step of every directed scenario behaves as intended
        print("NOTE scenario set-up deviations: %s" % st["unexpected"][:5], flush=True)
    cov = {
        "traces_validated_against_impl": st["traces"], "events_validated": st["events"],
        "evaluations": st["events"], "distinct_nontrivial": st["nontrivial"],
        "rule": "a trace is one block history executed on the real RigoApp (directed scenario or seeded random); "
                "non-trivial = contains >= 4 distinct (transaction type, outcome) / evidence / absence kinds",
        "directed_scenarios": cfg["directed"], "random_profiles": cfg[tier],
        "outcome_kinds": sorted("%s:%s" % (a, "ok" if b else "fail") for a, b in st["kinds"]),
        "scenario_setup_deviations": st["unexpected"][:10],
        "situations_exhibited_(antecedents_of_the_clauses)": sorted(st["witnesses"]),
        "situations_required_for_this_property": WITNESS.get(prop, []),
        "model_conformance": "every recorded call is also executed by the transition model RigoCore.tla (RigoConf.tla): state fields and "
                             "responses compared after each step; a difference is printed as CONFORMANCE-DIFF and the model is re-synchronised",
        "model_steps_compared": st["model_steps"], "model_steps_adopted_(contract_execution)": st["model_adopted"],
        "samples": appcommon.sample_events(traces[0], 4),
    }
    if mcres:
        cov.update(mcres)
    else:
        cov["states"] = 0
        cov["transitions"] = 0
    level = "model_checking" if mcres else "exploration"
    return v.finish(level, cov, ASSUME)
