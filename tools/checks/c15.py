from checks import appprop, rigomc


def run(tier, replay=None):
    return appprop.run("C15", tier, replay, mc=rigomc.for_prop("C15"))
