"""Bounded model checks of RigoCore.tla in its consensus environment (MC_Rigo.tla).

The invariant NoViolation says that no clause of ANY property of RigoProps.tla is violated by any
step of the model; the judging operators (Checks / NextMon of RigoMon.tla) are the ones that judge
the traces recorded from the real code.  A violation here is a defect of the SPECIFICATION (or a
documented as-built quirk), never a verdict about the code: it is reported as a machinery failure.
"""
import os
import re

import vlib

# family -> (module, cfg, quick (blocks, txs), thorough [(blocks, txs), ...])
FAMILY = {
    "value": ("MC_Value.tla", "MC_Value.cfg", (3, 1), [(2, 2), (4, 1)]),
    "stake": ("MC_Stake.tla", "MC_Stake.cfg", (3, 1), [(4, 1)]),
    "gov": ("MC_Gov.tla", "MC_Gov.cfg", (4, 1), [(5, 1)]),
    "restart": ("MC_Restart.tla", "MC_Restart.cfg", (3, 1), [(4, 1), (3, 2)]),
    # three validators on three seats, two warm-up blocks: the stake limiter is consulted (and refuses)
    "limiter": ("MC_Limiter.tla", "MC_Limiter.cfg", (2, 1), [(2, 2)]),
    # a mempool check (CheckTx) of any transaction of the menu interleaved at any point; every clause judges those steps too
    "mempool": ("MC_Mempool.tla", "MC_Mempool.cfg", (1, 1), [(2, 1)]),
}
PROP_FAMILY = {
    "C02": ["value", "stake"], "C03": ["value"], "C04": ["value"], "C05": ["value", "limiter", "gov"], "C16": ["value", "gov"],
    "C10": ["stake", "limiter"], "C11": ["stake", "limiter"], "C12": ["stake"], "C13": ["stake"], "C14": ["stake", "gov"],
    "C15": ["gov"], "C19": ["value"], "C07": ["restart"], "C06": ["mempool"],
}
# thorough tier per property: (family, blocks, transactions per block); measured (16 cores, uncontended): value 2x2 2 min, 4x1 11 min,
# stake 4x1 6 min, limiter 2x2 8 min, gov 4x1 1 min, 5x1 8 min, restart 4x1 20 s, 3x2 2 min, mempool 2x1 1 min
PROP_THOROUGH = {
    "C02": [("value", 2, 2), ("value", 4, 1), ("stake", 3, 1)],
    "C03": [("value", 2, 2), ("value", 4, 1)],
    "C04": [("value", 2, 2), ("value", 4, 1)],
    "C05": [("value", 2, 2), ("limiter", 2, 2), ("gov", 4, 1)],
    "C16": [("value", 2, 2), ("gov", 5, 1)],
    "C10": [("stake", 4, 1), ("limiter", 2, 2)],
    "C11": [("stake", 4, 1), ("limiter", 2, 1)],
    "C12": [("stake", 4, 1)],
    "C13": [("stake", 4, 1)],
    "C14": [("stake", 4, 1), ("gov", 4, 1)],
    "C15": [("gov", 5, 1)],
    "C19": [("value", 2, 2), ("value", 3, 1)],
    "C07": [("restart", 4, 1), ("restart", 3, 2)],
    "C06": [("mempool", 2, 1)],
}
SPECS = ("BigNat.tla", "RigoProps.tla", "RigoMon.tla", "RigoCore.tla", "MC_Rigo.tla")


def run_family(fam, blocks, txs, coverage=False, timeout=3000):
    mod, cfg, _, _ = FAMILY[fam]
    files = vlib.spec_files(*SPECS, mod, cfg)
    q = os.path.join(vlib.scratch(), "%s_%d_%d.cfg" % (cfg[:-4], blocks, txs))
    text = open(files[-1]).read()
    text = re.sub(r"MaxBlocks = \d+", "MaxBlocks = %d" % blocks, text)
    text = re.sub(r"MaxTxs = \d+", "MaxTxs = %d" % txs, text)
    open(q, "w").write(text)
    files[-1] = q
    res = vlib.run_tlc(files, mod, os.path.basename(q), workers=16, timeout=timeout, coverage=coverage)
    if vlib.tlc_failed(res) or res.violated:
        raise vlib.MachineryError("bounded model %s (%d blocks x %d txs): the specification violates its own property clauses or TLC failed:\n%s"
                                  % (mod, blocks, txs, vlib.counterexample(res, 3000) or res.output[-2000:]))
    vlib.log("%s %dx%d: %d generated / %d distinct states, depth %d, %.0fs" % (mod, blocks, txs, res.generated, res.distinct, res.depth, res.wall))
    return res


def bridge_mc(tier):
    """C17: EvmBridge.tla with the code's tagging rule (must hold) and two wrong rules (must be refuted)."""
    res = vlib.run_tlc(vlib.spec_files("EvmBridge.tla", "MC_EvmBridge.cfg"), "EvmBridge.tla", "MC_EvmBridge.cfg", workers=8, timeout=1800)
    if vlib.tlc_failed(res) or res.violated:
        raise vlib.MachineryError("EvmBridge.tla violates its own invariants:\n" + vlib.counterexample(res, 3000))
    refuted = []
    for bad in ("MC_EvmBridge_bad1.cfg", "MC_EvmBridge_bad2.cfg"):
        r = vlib.run_tlc(vlib.spec_files("EvmBridge.tla", bad), "EvmBridge.tla", bad, workers=4, timeout=600)
        if "NoStaleRead" not in r.violated:
            raise vlib.MachineryError("sanity: the wrong tagging rule of %s should violate NoStaleRead" % bad)
        refuted.append(bad)
    vlib.log("EvmBridge.tla: %d generated / %d distinct states, %.0fs; wrong rules refuted: %s" % (res.generated, res.distinct, res.wall, refuted))
    return {"states": res.distinct, "transitions": res.generated, "exhaustive": True,
            "mc_runs": [{"config": "MC_EvmBridge.cfg", "distinct_states": res.distinct, "generated_states": res.generated, "wall_s": round(res.wall, 1)}],
            "mc_invariant": "NoStaleRead, SyncNotReverted, FailureIsInvisible, WriteBackExact of EvmBridge.tla (3 addresses, nested snapshots/reverts, "
                            "<= 6 steps per transaction); two wrong tagging rules are refuted by TLC"}


def for_prop(prop):
    if prop == "C17":
        return bridge_mc
    fams = PROP_FAMILY.get(prop)
    if not fams:
        return None

    def go(tier):
        states = trans = 0
        runs = []
        if tier == "quick":
            plan = [(f,) + FAMILY[f][2] for f in fams if f == fams[0] or f == "limiter"]
        else:
            plan = PROP_THOROUGH.get(prop) or [(f, b, t) for f in fams for (b, t) in FAMILY[f][3]]
        for (fam, b, t) in plan:
            _, cfgname, quick, thorough = FAMILY[fam]
            for _ in (0,):
                res = run_family(fam, b, t, coverage=False)
                states += res.distinct
                trans += res.generated
                runs.append({"config": cfgname, "blocks": b, "txs_per_block": t, "distinct_states": res.distinct,
                             "generated_states": res.generated, "depth": res.depth, "wall_s": round(res.wall, 1)})
        return {"states": states, "transitions": trans, "exhaustive": True,
                "mc_runs": runs,
                "mc_invariant": "NoViolation: no clause of any property of RigoProps.tla is violated by any step of RigoCore.tla "
                                "under every legal consensus input and the state-aware transaction menu of the configuration"}
    return go
