"""Bounded model checks of RigoCore.tla per property family (filled in as the model grows)."""


def for_prop(prop):
    return None
