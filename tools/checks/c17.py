from checks import appprop, rigomc


def run(tier, replay=None):
    return appprop.run("C17", tier, replay, mc=rigomc.for_prop("C17"))
