"""C09 - no externally supplied input can crash the node (exploration).

Hostile generators (random bytes; truncated / bit-flipped / spliced valid encodings; valid
envelopes with hostile field values; correctly signed transactions with hostile payloads so
that every validation layer and the execution are reached; queries on every path with
hostile data and heights) run against the real application for CheckTx, DeliverTx (inside
blocks, at every position) and Query.  HostileTrace.tla judges the recorded run: no panic,
a rejected input leaves the state digest unchanged, a well-formed probe still succeeds.
Boundary-amount block histories and the huge-stake scenario add the panics that need a
particular state (RigoTrace.tla, clause C09).
"""
import json
import os

import vlib
from checks import appcommon

PROP = "C09"


def run(tier, replay=None):
    v = vlib.Verdict(PROP, tier)
    quick = tier == "quick"
    if replay:
        tr = appcommon.replay_trace(replay)
        st = appcommon.collect(v, PROP, [tr], [])
        return v.finish("exploration", {"evaluations": max(1, st["events"]), "distinct_nontrivial": 2, "rule": "replay", "samples": [{"replay": replay}]})
    tmp = vlib.sub("apps")
    jobs = []
    n_inst, rounds, shards = (2, 3, 2) if quick else (6, 8, 12)
    outs = []
    import concurrent.futures
    def one(i):
        out = os.path.join(vlib.scratch(), "hostile-%d.ndjson" % i)
        st = vlib.driver_json(["hostile", "-out", out, "-tmp", tmp, "-seed", vlib.seed() * 50 + i, "-n", n_inst, "-rounds", rounds])
        res = vlib.run_tlc(vlib.spec_files("HostileTrace.tla", "HostileTrace.cfg"), "HostileTrace.tla", "HostileTrace.cfg", workers=1,
                           timeout=3000, cwd_files={"trace.ndjson": out}, java_opts=["-Xmx3g"])
        if vlib.tlc_failed(res) or "VIOLATIONS" not in res.prints:
            raise vlib.MachineryError("hostile trace validation failed:\n" + res.output[-2000:])
        return out, st, res.print_json("VIOLATIONS")
    total = {"events": 0, "traces": 0}
    by_layer = {}
    sample = []
    with concurrent.futures.ThreadPoolExecutor(max_workers=8) as ex:
        for out, st, bad in ex.map(one, range(shards)):
            total["events"] += st["events"]
            total["traces"] += st["traces"]
            for k, c in st["by_layer"].items():
                by_layer[k] = by_layer.get(k, 0) + c
            lines = open(out).read().splitlines()
            if not sample:
                sample = [json.loads(x) for x in lines[2:6]]
            for b in bad:
                e = json.loads(lines[b["line"] - 1])
                for what in b["what"]:
                    if not what.startswith("C09"):
                        print("NOTE (clause of another property): " + what, flush=True)
                        continue
                    os.makedirs(vlib.REPLAYS, exist_ok=True)
                    path = os.path.join(vlib.REPLAYS, "C09-seed%d-%s-%d.json" % (vlib.seed(), os.path.basename(out), b["line"]))
                    json.dump(e, open(path, "w"))
                    v.violation("%s: %s [%s]" % (what, e.get("panic", "")[:200], json.dumps({k: e[k] for k in e if k not in ("state",)})[:400]),
                                {"clause": what, "call": e.get("call"), "kind": e.get("kind")}, replay=path)
    need = ["CheckTx/decode", "DeliverTx/decode", "DeliverTx/lookup", "DeliverTx/signature", "DeliverTx/common1", "DeliverTx/controller",
            "DeliverTx/executed", "Query/vm_call", "Query/account",
            "Sweep/opcode-init", "Sweep/opcode-call", "Sweep/opcode-transfer", "Sweep/precompile"]
    missing = [k for k in need if not by_layer.get(k)]
    if missing and not v.violations:
        raise vlib.MachineryError("hostile driver never reached %s" % missing)

    # state-dependent panics: boundary amounts in block histories + the huge-stake scenario
    traces, sdirs, dst = appcommon.gen_traces(tier, ["huge_stake", "fee_edges", "tiny_stakes_slashed", "tiny_voter_slashed"], [dict(n=4 if quick else 40, blocks=15 if quick else 30, boundary=True)])
    st = appcommon.collect(v, PROP, traces, sdirs)
    cov = {
        "evaluations": total["events"] + st["events"],
        "distinct_nontrivial": len([k for k, c in by_layer.items() if c > 0]),
        "rule": "one evaluation = one hostile input sent to the real application (or one event of a boundary-amount history); "
                "distinct_nontrivial = number of distinct (call, deepest validation layer reached / query path) classes exercised",
        "by_call_and_layer": by_layer,
        "block_histories": st["traces"],
        "samples": sample,
    }
    return v.finish("exploration", cov, ["sampling of the input space; the specification supplies the oracle (error response, state unchanged, still usable), not the coverage",
                                         "vm_call queries use a stub block store for header times (Tendermint's RPC environment is not running)"])
