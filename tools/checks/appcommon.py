"""Shared pipeline of the application-level checks (C02-C05, C09-C16, C19):

  Go driver (real RigoApp, -tags verif)  ->  ndjson traces  ->  TLC / RigoTrace.tla
  (RigoProps.tla predicates evaluated on the recorded values)  ->  violations per property.

A check for property X runs the directed scenarios that serve X, seeded random histories
with a profile aimed at X, and the bounded model check of the family X belongs to; it
reports only clauses tagged X (clauses of other properties found on the way are printed
as notes: each property has its own check).
"""
import concurrent.futures
import json
import os
import shutil
import threading

import vlib

TRACE_SPEC = ("BigNat.tla", "RigoProps.tla", "RigoMon.tla", "RigoTrace.tla", "RigoTrace.cfg", "RigoTraceBig.cfg")
CONF_SPEC = ("BigNat.tla", "RigoProps.tla", "RigoCore.tla", "RigoConf.tla", "RigoConf.cfg", "RigoConfBig.cfg")


def is_big(trace):
    """Histories recorded in units of 10^12 powers (genesis with power_unit; file name bigunit-*) are evaluated with
    the stake unit 10^30 (cfg override UnitLimbs <- BigUnitLimbs), everything else being the same."""
    return os.path.basename(trace).startswith("bigunit")
_lock = threading.Lock()


def conform_file(trace, timeout=3000):
    """Is the recorded behaviour a behaviour of the transition model RigoCore.tla?  Returns (differences, counts).
    Differences are diagnostics (CONFORMANCE-DIFF), never verdicts."""
    with _lock:
        files = vlib.spec_files(*CONF_SPEC)
    res = vlib.run_tlc(files, "RigoConf.tla", "RigoConfBig.cfg" if is_big(trace) else "RigoConf.cfg", workers=1, timeout=timeout,
                       cwd_files={"trace.ndjson": trace}, java_opts=["-Xmx3g"])
    if vlib.tlc_failed(res) or "DIFFS" not in res.prints:
        raise vlib.MachineryError("model conformance of %s did not complete:\n%s" % (trace, res.output[-3000:]))
    counts = res.print_json("COUNTS")
    return res.print_json("DIFFS"), counts


def validate_file(trace, timeout=3000):
    with _lock:
        files = vlib.spec_files(*TRACE_SPEC)
    res = vlib.run_tlc(files, "RigoTrace.tla", "RigoTraceBig.cfg" if is_big(trace) else "RigoTrace.cfg", workers=1, timeout=timeout,
                       cwd_files={"trace.ndjson": trace}, java_opts=["-Xmx3g"])
    if vlib.tlc_failed(res) or "VIOLATIONS" not in res.prints:
        raise vlib.MachineryError("trace validation of %s did not complete:\n%s" % (trace, res.output[-3000:]))
    return res.print_json("VIOLATIONS"), set(res.print_json("WITNESSES"))


def trace_index(trace):
    """Per trace (1-based, in file order): scenario name / random index, whether a genesis
    validator changed in block 1 (known finding D8), event and tag statistics."""
    metas = []
    cur = None
    g0 = None
    for n, line in enumerate(open(trace), 1):
        e = json.loads(line)
        if e["ev"] == "Genesis":
            cur = {"first": n, "scenario": e.get("scenario", "random"), "g1changed": False, "events": 0, "kinds": set(),
                   "unexpected": [], "dead": False, "reject": None, "rand_file": e.get("scfile")}
            g0 = {k: [(s["id"], s["pow"]) for s in d["stakes"]] for k, d in e["post"]["delegs"].items()}
            metas.append(cur)
            continue
        if cur is None:
            continue
        cur["events"] += 1
        if e["ev"] == "Commit" and e.get("h") == 1 and "committed" in e:
            g1 = {k: [(s["id"], s["pow"]) for s in d["stakes"]] for k, d in e["committed"]["delegs"].items()}
            cur["g1changed"] = any(g1.get(k) != v for k, v in g0.items())
        if e["ev"] == "DeliverTx":
            t = e["tx"]["type"]
            cur["kinds"].add((t, e["resp"]["ok"]))
        elif e["ev"] == "BeginBlock":
            if e["evidence"]:
                cur["kinds"].add(("evidence", True))
            if any(not v["signed"] for v in e["votes"]):
                cur["kinds"].add(("absent", True))
        elif e["ev"] == "Note":
            cur["unexpected"].append(e.get("unexpected"))
        elif e["ev"] == "ConsensusReject":
            cur["reject"] = e["what"]
        if e.get("panic"):
            cur["dead"] = True
    return metas


def meta_of(metas, line):
    m = None
    for x in metas:
        if x["first"] <= line:
            m = x
    return m


def collect(v, prop, traces, scen_dirs, label_of=None):
    """Validate trace files in parallel; feed violations of `prop` into the verdict."""
    results = {}
    conf = {}
    with concurrent.futures.ThreadPoolExecutor(max_workers=min(8, max(1, 2 * len(traces)))) as ex:
        futs = {ex.submit(validate_file, t): t for t in traces}
        cfuts = {ex.submit(conform_file, t): t for t in traces}
        witnesses = set()
        for f in concurrent.futures.as_completed(futs):
            results[futs[f]], w = f.result()
            witnesses |= w
        for f in concurrent.futures.as_completed(cfuts):
            conf[cfuts[f]] = f.result()
    stats = {"traces": 0, "events": 0, "nontrivial": 0, "kinds": set(), "others": {}, "unexpected": [],
             "model_steps": 0, "model_adopted": 0, "witnesses": witnesses}
    for t in traces:
        ds, counts = conf[t]
        stats["model_steps"] += counts["steps"]
        stats["model_adopted"] += counts["adopted"]
        for d in ds:
            v.diff("RigoCore.tla does not describe what the code did at line %d of %s (%s%s): %s differ" % (
                d["line"], os.path.basename(t), d["ev"], (" " + d["tag"]) if d.get("tag") else "", ", ".join(sorted(d["fields"]))))
    for t in traces:
        metas = trace_index(t)
        stats["traces"] += len(metas)
        for m in metas:
            stats["events"] += m["events"]
            stats["kinds"] |= m["kinds"]
            if len(m["kinds"]) >= 4:
                stats["nontrivial"] += 1
            stats["unexpected"] += ["%s: %s" % (m["scenario"], u) for u in m["unexpected"]]
        for b in results[t]:
            m = meta_of(metas, b["line"])
            for what in b["what"]:
                pid = what.split(":")[0]
                if pid != prop:
                    stats["others"].setdefault(pid, set()).add(what)
                    continue
                obs = {"clause": what, "scenario": m["scenario"], "g1changed": m["g1changed"], "event": b["ev"]}
                replay = save_replay(prop, m, t, scen_dirs, b["line"])
                v.violation("%s [%s, trace %d of %s, line %d, %s]" % (what, m["scenario"], b["trace"], os.path.basename(t), b["line"], b["ev"]),
                            obs, replay=replay)
    for pid, ws in sorted(stats["others"].items()):
        for w in sorted(ws)[:3]:
            print("NOTE (clause of another property seen while checking %s): %s" % (prop, w), flush=True)
    return stats


def save_replay(prop, meta, trace, scen_dirs, line):
    """Copy the scenario file behind a violating trace to /verif/replays."""
    os.makedirs(vlib.REPLAYS, exist_ok=True)
    name = meta["scenario"]
    cands = []
    for d in scen_dirs:
        if name != "random":
            cands.append(os.path.join(d, "dir-%s.json" % name))
        else:
            # random traces are saved as sc-<seed>.json in generation order
            idx = meta.get("rand_file")
            if idx:
                cands.append(os.path.join(d, idx))
    for c in cands:
        if os.path.exists(c):
            dst = os.path.join(vlib.REPLAYS, "%s-%s-seed%d-%s" % (prop, name, vlib.seed(), os.path.basename(c)))
            shutil.copyfile(c, dst)
            return dst
    dst = os.path.join(vlib.REPLAYS, "%s-%s-seed%d-line%d.trace.ndjson" % (prop, name, vlib.seed(), line))
    # fall back to the recorded trace itself (up to the offending line)
    lines = open(trace).read().splitlines()
    start = meta["first"] - 1
    with open(dst, "w") as f:
        f.write("\n".join(lines[start:line]) + "\n")
    return dst


def gen_traces(tier, directed, random_specs, evm=False):
    """Run the driver. directed: list of scenario names (None = all). random_specs: list of dicts
    {n, blocks, maxtx, family, boundary, seed_off}. Returns (trace files, scenario dirs, driver stats)."""
    tmp = vlib.sub("apps")
    traces, sdirs, st = [], [], {"traces": 0, "events": 0, "dead": 0}
    if directed is not None:
        # scenarios named big_* run on the big-unit genesis: their traces go to a file of their own (see is_big)
        groups = [("directed.ndjson", "sc-directed", [d for d in directed if not d.startswith("big_")] if directed else directed)]
        big = [d for d in (directed or []) if d.startswith("big_")]
        if big:
            groups.append(("bigunit-directed.ndjson", "sc-directed-big", big))
        for fname, sdname, names in groups:
            if directed and not names:
                continue
            out = os.path.join(vlib.scratch(), fname)
            sd = vlib.sub(sdname)
            args = ["directed", "-out", out, "-tmp", tmp, "-seed", vlib.seed(), "-scenarios", sd]
            if names:
                args += ["-names", ",".join(names)]
            if evm:
                args += ["-evm"]
            r = vlib.driver_json(args)
            st["traces"] += r["traces"]
            st["events"] += r["events"]
            traces.append(out)
            sdirs.append(sd)
    jobs = []
    for i, rs in enumerate(random_specs):
        out = os.path.join(vlib.scratch(), "random-%d.ndjson" % i)
        sd = vlib.sub("sc-random-%d" % i)
        args = ["random", "-out", out, "-tmp", tmp, "-seed", vlib.seed() * 100 + rs.get("seed_off", i), "-n", rs["n"],
                "-blocks", rs.get("blocks", 25), "-maxtx", rs.get("maxtx", 5), "-family", rs.get("family", -1), "-scenarios", sd]
        if rs.get("boundary"):
            args += ["-boundary"]
        if evm:
            args += ["-evm"]
        args += rs.get("extra", [])
        jobs.append((args, out, sd))
    with concurrent.futures.ThreadPoolExecutor(max_workers=8) as ex:
        for (args, out, sd), r in zip(jobs, ex.map(lambda j: vlib.driver_json(j[0]), jobs)):
            st["traces"] += r["traces"]
            st["events"] += r["events"]
            st["dead"] += r.get("dead", 0)
            traces.append(out)
            sdirs.append(sd)
    return traces, sdirs, st


def replay_trace(path, evm=False):
    """--replay: a scenario file (re-executed) or a recorded trace (re-validated)."""
    if path.endswith(".ndjson"):
        return path
    big = False
    try:
        big = json.load(open(path)).get("genesis", {}).get("power_unit", 0) > 1
    except Exception:
        pass
    out = os.path.join(vlib.scratch(), "bigunit-replay.ndjson" if big else "replay.ndjson")
    args = ["replay", "-scenario", path, "-out", out, "-tmp", vlib.sub("apps")]
    if evm:
        args.append("-evm")
    vlib.driver_json(args)
    # name the trace after its scenario so that known findings match
    return out


def sample_events(trace, n=6):
    out = []
    for line in open(trace):
        e = json.loads(line)
        if e["ev"] == "DeliverTx":
            out.append({"ev": "DeliverTx", "tx": e["tx"], "resp": {k: e["resp"][k] for k in ("ok", "code", "gasUsed", "log")}, "tag": e.get("tag")})
            if len(out) >= n:
                break
    return out
