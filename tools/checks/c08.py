"""C08 - crash recovery: fault enumeration on the real application, judged by DurabilityTrace.tla.

1. design: Durability.tla (Commit refined into its durable writes, crash anywhere, reopen,
   handshake, replay): the repaired design satisfies NeverBricked / InfoIsReconcilable
   exhaustively; the as-built design does not, and TLC enumerates exactly which crash points brick.
2. conformance: for blocks of real histories EVERY crash point is taken on the real code
   (copy of the data directory after each consensus call and, through the DurableWrite hook,
   after each durable write inside Commit); each copy is reopened, Info is read, Tendermint's
   handshake rule is applied, the interrupted block is replayed and the history continued.
   DurabilityTrace.tla evaluates the C08 predicates on the recorded outcome (verdict) and
   compares it with the as-built model's prediction (binding).
"""
import concurrent.futures
import json
import os
import shutil

import vlib

PROP = "C08"


def run(tier, replay=None):
    v = vlib.Verdict(PROP, tier)
    quick = tier == "quick"
    tmp = vlib.sub("apps")

    mc = vlib.run_tlc(vlib.spec_files("Durability.tla", "MC_Durability.cfg"), "Durability.tla", "MC_Durability.cfg", workers=4, timeout=900)
    if vlib.tlc_failed(mc) or mc.violated:
        raise vlib.MachineryError("the repaired Durability model violates its own formulas:\n" + vlib.counterexample(mc))
    ab = vlib.run_tlc(vlib.spec_files("Durability.tla", "MC_Durability_asbuilt.cfg"), "Durability.tla", "MC_Durability_asbuilt.cfg", workers=4, timeout=900)
    en = vlib.run_tlc(vlib.spec_files("Durability.tla", "MC_DurabilityEnum.tla", "MC_DurabilityEnum.cfg"), "MC_DurabilityEnum.tla", "MC_DurabilityEnum.cfg",
                      workers=1, timeout=900)
    if "BRICKS" not in en.prints:
        raise vlib.MachineryError("enumeration of the as-built model failed:\n" + en.output[-2000:])
    model_bricks = sorted(tuple(x) for x in en.print_json("BRICKS"))
    model_recovers = sorted(tuple(x) for x in en.print_json("RECOVERS"))

    # histories
    sd = vlib.sub("sc")
    if replay:
        rp = json.load(open(replay))
        json.dump(rp["scenario"], open(os.path.join(sd, rp.get("scenario_file", "replay.json")), "w"))
        window = (rp["block"], rp["block"])
    else:
        names = ["absences_over_window", "vote_window_edges", "slash_then_unstake", "evm_quiet_blocks"] if quick else \
            ["absences_over_window", "vote_window_edges", "slash_then_unstake", "evm_quiet_blocks", "many_unbonding", "validator_churn", "price_change", "forced_unbond", "twin_jail", "evm_mixed"]
        vlib.driver_json(["directed", "-out", os.path.join(vlib.scratch(), "d.ndjson"), "-tmp", tmp, "-seed", vlib.seed(), "-scenarios", sd, "-names", ",".join(names)])
        if not quick:
            vlib.driver_json(["random", "-out", os.path.join(vlib.scratch(), "r.ndjson"), "-tmp", tmp, "-seed", vlib.seed() * 31 + 3, "-n", 9, "-blocks", 22, "-maxtx", 4, "-scenarios", sd])
        window = (9, 10) if quick else (1, 21)
    files = sorted(os.listdir(sd))
    groups = []
    for i, f in enumerate(files):
        g = vlib.sub("shard-%d" % i)
        shutil.copy(os.path.join(sd, f), g)
        groups.append(g)
    vlib.driver()

    def one(i_g):
        i, g = i_g
        out = os.path.join(vlib.scratch(), "crash-%d.ndjson" % i)
        st = vlib.driver_json(["crash", "-scenarios", g, "-out", out, "-tmp", tmp, "-from", window[0], "-to", window[1], "-cont", 3], timeout=7200)
        if quick and not replay:
            # the genesis block (InitChain delivered again after a crash before the first commit) of one history
            out1 = os.path.join(vlib.scratch(), "crash-%d-genesis.ndjson" % i)
            st1 = vlib.driver_json(["crash", "-scenarios", g, "-out", out1, "-tmp", tmp, "-from", 1, "-to", 1, "-cont", 3], timeout=7200)
            with open(out, "a") as f:
                f.write(open(out1).read())
            st = {k: st.get(k, 0) + st1.get(k, 0) for k in set(st) | set(st1)}
        res = vlib.run_tlc(vlib.spec_files("Durability.tla", "DurabilityTrace.tla", "DurabilityTrace.cfg"), "DurabilityTrace.tla", "DurabilityTrace.cfg",
                           workers=1, timeout=3000, cwd_files={"trace.ndjson": out}, java_opts=["-Xmx2g"])
        if vlib.tlc_failed(res) or "VIOLATIONS" not in res.prints:
            raise vlib.MachineryError("crash trace validation failed:\n" + res.output[-2000:])
        return g, out, st, res.print_json("VIOLATIONS"), res.print_json("DIFFS")

    total = {"crash_points": 0, "traces": 0}
    observed_bricks, observed_ok, sample, sites = set(), set(), [], set()
    with concurrent.futures.ThreadPoolExecutor(max_workers=8) as ex:
        for g, out, st, bad, diffs in ex.map(one, list(enumerate(groups))):
            total["crash_points"] += st["crash_points"]
            total["traces"] += st["traces"]
            for x in open(out):
                e = json.loads(x)
                if e["ev"] != "Crash":
                    continue
                ok = not (e["reopenPanic"] or e["replayPanic"] or e["refused"])
                (observed_ok if ok else observed_bricks).add((e["tenth"], e["ordinal"]))
                sites.add(e["point"].split("#")[0] if e["ordinal"] else e["point"].split("#")[0])
                if len(sample) < 4 and e["ordinal"] in (0, 3, 10):
                    sample.append({k: e[k] for k in ("block", "point", "infoH", "infoHashOK", "replayPanic", "continued", "forkAt")})
            for b in bad:
                for what in b["what"]:
                    os.makedirs(vlib.REPLAYS, exist_ok=True)
                    path = os.path.join(vlib.REPLAYS, "C08-seed%d-%s-block%d-%s.json" % (vlib.seed(), os.path.basename(g), b["block"], b["point"].replace(":", "_").replace("#", "_")))
                    scf = sorted(os.listdir(g))[0]
                    json.dump({"scenario_file": scf, "scenario": json.load(open(os.path.join(g, scf))), "block": b["block"], "crash_point": b["point"],
                               "what": what}, open(path, "w"))
                    v.violation("%s [block %d, process death at %s]" % (what, b["block"], b["point"]),
                                {"clause": what, "point": b["point"], "site": b["site"], "ordinal": b["ordinal"], "info": b["info"]}, replay=path)
            for d in diffs:
                v.diff("Durability.tla (as built) predicts %s at %s, the code %s" % ("recovery" if d["predicted"] else "a bricked node", d["point"],
                                                                                     "recovered" if d["recovered"] else "did not recover"))
    if not replay and total["crash_points"] < 20 and not v.violations:
        raise vlib.MachineryError("only %d crash points were taken" % total["crash_points"])
    if sorted(observed_bricks) != [b for b in model_bricks if tuple(b) in observed_bricks | observed_ok]:
        v.diff("set of bricking crash points: model %s, code %s" % (model_bricks, sorted(observed_bricks)))
    cov = {
        "evaluations": total["crash_points"], "distinct_nontrivial": len(observed_bricks | observed_ok),
        "rule": "one evaluation = one process death (copy of the data directory at that instant) recovered by a fresh application instance; "
                "distinct = distinct (height is a multiple of 10, number of completed commit writes) classes; every class of the model is taken",
        "exhaustive": True,
        "histories": total["traces"], "block_window": list(window),
        "crash_sites": sorted(sites),
        "model_states": mc.distinct, "model_transitions": mc.generated,
        "asbuilt_model_violates": ab.violated,
        "model_bricking_points(tenth,writes_done)": [list(x) for x in model_bricks],
        "code_bricking_points(tenth,writes_done)": [list(x) for x in sorted(observed_bricks)],
        "three_way_agreement": sorted(observed_bricks) == [tuple(b) for b in model_bricks],
        "samples": sample,
    }
    return v.finish("fault_enumeration", cov, [
        "process death only (a directory copy): power loss with unsynced page cache and torn LevelDB batches are outside the model",
        "Tendermint 0.34 handshake rule as read from its source: block store holds the interrupted block; the application may report h-1 (replay) or h",
        "IAVL SaveVersion and LevelDB batch writes are atomic"])
