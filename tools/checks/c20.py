"""C20 - the file-backed validator signer never double-signs, across restarts.

1. design: exhaustive TLC run of PrivVal.tla (MC_PrivVal.cfg): NoDoubleSign, Monotone,
   PersistBeforeRelease, ReplayReturnsOriginal with crashes/reloads at every point.
2. spec -> code: TLC-simulated behaviours (requests, crash between persist and release,
   reloads) are replayed on the real SFilePV; 3. code -> spec: seeded random request
   sequences over larger heights/rounds.  PrivValTrace.tla evaluates the C20 predicates on
   the RECORDED signatures / state-file contents (verdict) and compares the model's
   predicted result class with the recorded one (binding, diagnostic).
"""
import json
import os

import vlib

PROP = "C20"


def validate(v, trace, label):
    res = vlib.run_tlc(vlib.spec_files("PrivVal.tla", "PrivValTrace.tla", "PrivValTrace.cfg"), "PrivValTrace.tla",
                       "PrivValTrace.cfg", workers=1, timeout=1800, cwd_files={"trace.ndjson": trace})
    if vlib.tlc_failed(res) or "VIOLATIONS" not in res.prints:
        raise vlib.MachineryError("trace validation (%s) did not complete:\n%s" % (label, res.output[-3000:]))
    lines = open(trace).read().splitlines()

    def seq_of(lineno):
        i = lineno - 1
        start = i
        while start > 0 and json.loads(lines[start])["ev"] != "Reset":
            start -= 1
        steps = []
        for x in lines[start + 1:i + 1]:
            e = json.loads(x)
            if e["ev"] == "Reload":
                steps.append({"ev": "Reload"})
            else:
                steps.append({k: e[k] for k in ("ev", "h", "r", "s", "bid", "ts", "crash")})
        return steps

    for b in res.print_json("VIOLATIONS"):
        steps = seq_of(b["line"])
        os.makedirs(vlib.REPLAYS, exist_ok=True)
        path = os.path.join(vlib.REPLAYS, "C20-seed%d-line%d.json" % (vlib.seed(), b["line"]))
        json.dump([steps], open(path, "w"))
        for what in b["what"]:
            v.violation("%s (%s, step %d of its sequence: %s)" % (what, label, len(steps), json.dumps(steps[-1])),
                        {"predicate": what.split(":")[0]}, replay=path)
    for d in res.print_json("DIFFS"):
        v.diff("signer result %s where PrivVal.tla predicts %s (%s, trace line %d)" % (d["recorded"], d["predicted"], label, d["line"]))
    return res


def stats(trace):
    kinds = set()
    nontrivial = 0
    cur = set()
    for line in open(trace):
        e = json.loads(line)
        if e["ev"] == "Reset":
            if len(cur) >= 4:
                nontrivial += 1
            cur = set()
            continue
        k = e["ev"] if e["ev"] != "Sign" else "Sign:" + (e["err"] if e["res"] == "err" else e["res"])
        cur.add(k)
        kinds.add(k)
    if len(cur) >= 4:
        nontrivial += 1
    return kinds, nontrivial


def apalache_induction():
    import shutil
    import subprocess
    import time
    exe = shutil.which("apalache-mc")
    if not exe:
        raise vlib.MachineryError("apalache-mc is not on PATH")
    d = vlib.sub("apalache")
    for f in vlib.spec_files("PrivVal.tla", "PrivValInd.tla"):
        shutil.copy(f, d)
    out = {}
    for name, args in (("base", ["--init=Init", "--length=0"]), ("step", ["--init=IndInit", "--length=1"])):
        t0 = time.time()
        try:
            p = subprocess.run([exe, "check", "--inv=IndInv", "--cinit=CInit", "--out-dir=" + os.path.join(d, "out-" + name)] + args + ["PrivValInd.tla"],
                               cwd=d, stdout=subprocess.PIPE, stderr=subprocess.STDOUT, text=True, timeout=2400)
        except subprocess.TimeoutExpired:
            raise vlib.MachineryError("apalache (%s case of the induction) did not finish in 40 minutes" % name)
        if "EXITCODE: OK" not in p.stdout or "The outcome is: NoError" not in p.stdout:
            raise vlib.MachineryError("the inductive invariant of PrivValInd.tla is not proved (%s case): the SPECIFICATION is at fault, not the code:\n%s"
                                      % (name, p.stdout[-2500:]))
        out[name + "_s"] = round(time.time() - t0, 1)
    vlib.log("PrivValInd.tla: IndInv is inductive (Apalache: base %.0fs, step %.0fs)" % (out["base_s"], out["step_s"]))
    return out


def run(tier, replay=None):
    v = vlib.Verdict(PROP, tier)
    quick = tier == "quick"
    tmp = vlib.sub("pv")
    if replay:
        out = os.path.join(vlib.scratch(), "replay.ndjson")
        vlib.driver_json(["pv", "-in", replay, "-out", out, "-tmp", tmp])
        validate(v, out, "replay")
        return v.finish("model_checking", {"states": 1, "transitions": 1, "traces_validated_against_impl": 1,
                                           "samples": [json.load(open(replay))]})

    files = vlib.spec_files("PrivVal.tla", "MC_PrivVal.tla", "MC_PrivVal.cfg")
    cfg = "MC_PrivVal.cfg"
    steps = 7
    if quick:
        steps = 6
        q = os.path.join(vlib.scratch(), "MC_PrivVal_q.cfg")
        open(q, "w").write(open(files[2]).read().replace("MaxSteps = 7", "MaxSteps = 6"))
        files[2], cfg = q, "MC_PrivVal_q.cfg"
    mc = vlib.run_tlc(files, "MC_PrivVal.tla", cfg, workers=16, timeout=1500)
    if vlib.tlc_failed(mc) or mc.violated:
        raise vlib.MachineryError("PrivVal.tla does not satisfy its own C20 formulas (spec bug):\n" + vlib.counterexample(mc))
    vlib.log("MC_PrivVal: %d generated / %d distinct states, %.0fs" % (mc.generated, mc.distinct, mc.wall))

    # unbounded in the number of steps (thorough tier): Apalache proves that IndInv of PrivValInd.tla - which contains NoDoubleSign and
    # PersistBeforeRelease - holds initially and is preserved by every step, for 3 heights x 3 rounds x 3 steps x 3 block ids x 2 timestamps
    inductive = None
    if not quick:
        inductive = apalache_induction()

    nsim = 120 if quick else 1600
    sim = vlib.run_tlc(vlib.spec_files("PrivVal.tla", "MC_PrivValSim.tla", "MC_PrivValSim.cfg"), "MC_PrivValSim.tla",
                       "MC_PrivValSim.cfg", workers=1 if quick else 8, timeout=1500,
                       simulate="num=%d" % (nsim if quick else nsim // 8), depth=40)
    seqs = [json.loads(vlib.tla_string(x)) for x in sim.prints.get("BEH", [])]
    if len(seqs) < nsim // 2:
        raise vlib.MachineryError("behaviour generation produced %d sequences:\n%s" % (len(seqs), sim.output[-2000:]))
    beh_in = os.path.join(vlib.scratch(), "beh.json")
    json.dump(seqs, open(beh_in, "w"))
    beh_trace = os.path.join(vlib.scratch(), "beh.ndjson")
    st1 = vlib.driver_json(["pv", "-in", beh_in, "-out", beh_trace, "-tmp", tmp])
    validate(v, beh_trace, "TLC-generated behaviour")

    nrand, lrand = (300, 40) if quick else (5000, 60)
    rnd_trace = os.path.join(vlib.scratch(), "rnd.ndjson")
    st2 = vlib.driver_json(["pv", "-out", rnd_trace, "-tmp", tmp, "-seed", vlib.seed(), "-n", nrand, "-len", lrand,
                            "-maxh", 6 if quick else 12])
    validate(v, rnd_trace, "random sequence")

    k1, n1 = stats(beh_trace)
    k2, n2 = stats(rnd_trace)
    kinds = k1 | k2
    need = {"Sign:ok", "Sign:crash", "Sign:conflict", "Sign:regression", "Reload"}
    if not need <= kinds:
        raise vlib.MachineryError("driver never produced %s" % sorted(need - kinds))
    sample = [json.loads(x) for x in open(rnd_trace).read().splitlines()[1:9]]
    cov = {
        "states": mc.distinct, "transitions": mc.generated,
        "traces_validated_against_impl": st1["traces"] + st2["traces"],
        "events_validated": st1["events"] + st2["events"],
        "evaluations": st1["events"] + st2["events"],
        "distinct_nontrivial": n1 + n2,
        "rule": "a trace is one request sequence on a fresh key/state file pair; non-trivial = shows >= 4 distinct outcome kinds "
                "(ok, crash, conflict, regression, nosignbytes, reload)",
        "exhaustive": True,
        "inductive_invariant": ("IndInv of PrivValInd.tla (contains NoDoubleSign, PersistBeforeRelease) proved inductive by Apalache for 3 heights x "
                                "3 rounds x 3 steps x 3 block ids x 2 timestamps: holds after ANY number of requests, releases, crashes and reloads; "
                                "seconds: %s" % inductive) if inductive else "thorough tier only",
        "mc_config": "heights 1-2, rounds 0-1, 3 steps, 3 block ids, 2 timestamps, <= %d steps incl. crash/reload anywhere" % steps,
        "outcome_kinds_seen": sorted(kinds),
        "samples": [{"first_steps_of_a_random_trace": sample}],
    }
    return v.finish("model_checking", cov, [
        "secp256k1 signing is deterministic (RFC 6979), so 'the original signature' is byte equality",
        "crash = process death right after the state file was written atomically (tempfile.WriteFileAtomic is trusted)",
        "the key file's encryption (wallet_key.go) is exercised with an empty passphrase only"])
