"""C01 / C06 / C07: two real replicas on one block history (ReplicasTrace.tla)."""
import concurrent.futures
import json
import os
import shutil

import vlib
from checks import appcommon

CFG = {
    "C01": dict(mode="det", directed=["fractional_min_stake", "absences_over_window", "clock_probe", "big_powers", "tiny_stakes_slashed", "evm_rejected_then_more", "many_proposals_one_block", "two_proposals_one_block", "evm_quiet_blocks", "restart_truncated", "vote_window_edges", "slash_then_unstake", "forced_unbond", "validator_churn", "many_unbonding", "price_change", "recreate_in_block"],
                quick=dict(n=8, blocks=25, budget=0), thorough=dict(n=120, blocks=45, budget=0)),
    "C06": dict(mode="iso", directed=["limiter_refusal_then_more", "twin_jail", "minstake_change", "restart_truncated", "checktx_not_delivered", "limiter_block", "vote_window_edges", "forced_unbond", "same_block_withdraw"],
                quick=dict(n=2, blocks=6, budget=260), thorough=dict(n=24, blocks=10, budget=700, full=True)),
    "C07": dict(mode="restart", directed=["fractional_min_stake", "absences_over_window", "big_powers", "restart_after_first_block", "tiny_stakes_slashed", "tiny_voter_slashed", "evm_rejected_then_more", "withdraw_without_issuance", "minstake_change", "evm_quiet_blocks", "restart_truncated", "valcount_change", "validator_churn", "vote_window_edges", "price_change", "many_unbonding", "forced_unbond", "twin_jail", "self_below_min", "slash_then_unstake"],
                quick=dict(n=4, blocks=14, budget=14), thorough=dict(n=24, blocks=24, budget=45, full=True)),
}

WHAT = {
    "C01": "one history executed by two independently started replicas (B in a separate OS process and directory; C restarted at random boundaries)",
    "C06": "one history executed quietly by A and with CheckTx / Query calls injected into a gap by B: every gap of every block x every pool element",
    "C07": "one history executed continuously by A and with process restarts (reopen of a copy of the data directory) by B",
}


def run(prop, tier, replay=None, mc=None):
    v = vlib.Verdict(prop, tier)
    cfg = CFG[prop]
    t = cfg[tier]
    tmp = vlib.sub("apps")
    if replay:
        groups = [os.path.abspath(replay)]
    else:
        # base scenarios: directed + random (the generating run's own traces are not needed here)
        sd = vlib.sub("sc-directed")
        vlib.driver_json(["directed", "-out", os.path.join(vlib.scratch(), "d.ndjson"), "-tmp", tmp, "-seed", vlib.seed(), "-scenarios", sd,
                          "-names", ",".join(cfg["directed"])])
        sr = vlib.sub("sc-random")
        # C06: some base histories contain restarts (executed by both replicas): what a restarted process keeps in its
        # caches differs from a long-running one, and the mempool overlay must stay invisible there too
        extra = ["-prestart", "0.15" if cfg["mode"] == "iso" else "0"]
        vlib.driver_json(["random", "-out", os.path.join(vlib.scratch(), "r.ndjson"), "-tmp", tmp, "-seed", vlib.seed() * 77 + 5, "-n", t["n"],
                          "-blocks", t["blocks"], "-maxtx", 4, "-scenarios", sr] + extra)
        # shard the scenario files over worker processes
        files = sorted([os.path.join(sd, f) for f in os.listdir(sd)] + [os.path.join(sr, f) for f in os.listdir(sr)])
        nshard = min(8, len(files))
        groups = []
        for i in range(nshard):
            g = vlib.sub("shard-%d" % i)
            for f in files[i::nshard]:
                shutil.copy(f, g)
            groups.append(g)
    vlib.driver()

    def one(i_g):
        i, g = i_g
        out = os.path.join(vlib.scratch(), "joint-%d.ndjson" % i)
        vdir = vlib.sub("variants-%d" % i)
        if replay:
            args = ["replicas", "-replay", g, "-out", out, "-tmp", tmp]
        else:
            args = ["replicas", "-mode", cfg["mode"], "-scenarios", g, "-out", out, "-tmp", tmp, "-seed", vlib.seed() * 13 + i,
                    "-budget", t.get("budget") or 100000, "-variants", vdir]
            if t.get("full"):
                args.append("-full")
        st = vlib.driver_json(args, timeout=7200)
        res = vlib.run_tlc(vlib.spec_files("ReplicasTrace.tla", "ReplicasTrace.cfg"), "ReplicasTrace.tla", "ReplicasTrace.cfg", workers=1,
                           timeout=3000, cwd_files={"trace.ndjson": out}, java_opts=["-Xmx3g"])
        if vlib.tlc_failed(res) or "VIOLATIONS" not in res.prints:
            raise vlib.MachineryError("replica trace validation failed:\n" + res.output[-2000:])
        return (replay or vdir), out, st, res.print_json("VIOLATIONS")

    tot = {"traces": 0, "pairs": 0, "scenarios": 0, "events": 0}
    samples = []
    kinds = set()
    with concurrent.futures.ThreadPoolExecutor(max_workers=8) as ex:
        for g, out, st, bad in ex.map(one, list(enumerate(groups))):
            for k in tot:
                tot[k] += st.get(k, 0)
            lines = open(out).read().splitlines()
            for x in lines[:400]:
                e = json.loads(x)
                if e["ev"] == "Variant" and len(samples) < 4:
                    samples.append({"variant": e["desc"]})
                if e["ev"] == "Pair":
                    kinds.add(e["kind"])
            for b in bad:
                for what in b["what"]:
                    pid = what.split(":")[0]
                    if pid != prop:
                        print("NOTE (clause of another property): " + what, flush=True)
                        continue
                    os.makedirs(vlib.REPLAYS, exist_ok=True)
                    # the replay file is the self-contained (base history, variant) pair the driver saved
                    if replay:
                        path = os.path.abspath(replay)
                    else:
                        src = os.path.join(g, "variant-%d.json" % b["k"])
                        if not os.path.exists(src):
                            raise vlib.MachineryError("the driver saved no replay file for the violating variant %s" % b["desc"])
                        path = os.path.join(vlib.REPLAYS, "%s-seed%d-%s-variant%d.json" % (prop, vlib.seed(), os.path.basename(os.path.dirname(src)), b["k"]))
                        shutil.copy(src, path)
                    v.violation("%s [%s; base op %s]" % (what, b["desc"], b["i"]), {"clause": what, "variant": b["desc"]}, replay=path)
    extra_cov = {}
    if prop == "C06" and not replay:
        # stepwise: single-replica histories with heavy mempool-only traffic; every recorded CheckTx is judged by the C06 clause of
        # RigoProps.tla (nothing block execution reads may change: ledgers, parameters, block limiter, EVM bridge state) and its result
        # is compared with the prediction of RigoCore.tla's scratch view (RigoConf.tla)
        n = 6 if tier == "quick" else 40
        tr = os.path.join(vlib.scratch(), "c06-mempool.ndjson")
        sdir = vlib.sub("sc-mempool")
        vlib.driver_json(["random", "-out", tr, "-tmp", tmp, "-seed", vlib.seed() * 91 + 7, "-n", n, "-blocks", 30, "-maxtx", 5,
                          "-pcheck", "0.45", "-evm", "-scenarios", sdir])
        tr2 = os.path.join(vlib.scratch(), "c06-directed.ndjson")
        sdir2 = vlib.sub("sc-mempool-directed")
        vlib.driver_json(["directed", "-out", tr2, "-tmp", tmp, "-seed", vlib.seed(), "-scenarios", sdir2, "-evm",
                          "-names", "checktx_not_delivered,limiter_block,query_in_flight"])
        st = appcommon.collect(v, "C06", [tr, tr2], [sdir, sdir2])
        nchk = sum(1 for f in (tr, tr2) for x in open(f) if '"ev":"CheckTx"' in x)
        if nchk < 30 and not v.violations:
            raise vlib.MachineryError("only %d mempool checks were recorded (dead driver)" % nchk)
        extra_cov = {"stepwise_checktx_calls_judged": nchk, "stepwise_histories": st["traces"], "model_steps_compared": st["model_steps"]}
    if not replay and tot["pairs"] < 50 and not v.violations:
        raise vlib.MachineryError("only %d calls were compared (dead driver)" % tot["pairs"])
    cov = {
        "traces_validated_against_impl": tot["traces"], "events_validated": tot["events"],
        "evaluations": tot["pairs"], "distinct_nontrivial": tot["traces"],
        "rule": WHAT[prop] + "; one evaluation = one consensus call whose outputs and resulting state digest were compared; "
                "distinct_nontrivial = number of (history, variant) pairs executed",
        "base_histories": tot["scenarios"], "call_kinds_compared": sorted(kinds),
        "samples": samples or [{"note": "no variant recorded"}],
    }
    cov.update(extra_cov)
    mcres = mc(tier) if mc else None
    if mcres:
        cov.update(mcres)
    else:
        cov["states"] = 0
        cov["transitions"] = 0
    return v.finish("model_checking" if mcres else "exploration", cov, [
        "replicas are real node.RigoApp instances driven at the ABCI boundary; the consensus engine is simulated",
        "restart / another node = a fresh application instance on a copy of the data directory or on its own directory; one Go toolchain and architecture",
        "outputs compared: DeliverTx (code, data, gas wanted, gas used), EndBlock validator updates, Commit hash, Info; plus a digest of the consensus state after every call"])
