from checks import replicas, rigomc


def run(tier, replay=None):
    return replicas.run("C01", tier, replay, mc=rigomc.for_prop("C01"))
