#!/usr/bin/env python3
"""Debug helper: run RigoTrace on a trace file and print violations; or show events around a line."""
import json, sys, os
sys.path.insert(0, os.path.dirname(os.path.abspath(__file__)))
import vlib

def main():
    trace = sys.argv[1]
    if len(sys.argv) > 2:
        n = int(sys.argv[2]); L = open(trace).read().splitlines()
        for i in range(max(0, n-3), min(len(L), n+1)):
            e = json.loads(L[i]); post = e.pop('post', None); com = e.pop('committed', None)
            print(i+1, json.dumps(e)[:1500])
            if i+1 == n and post: print('   POST', json.dumps(post)[:6000])
        return
    res = vlib.run_tlc(vlib.spec_files("BigNat.tla", "RigoProps.tla", "RigoMon.tla", "RigoTrace.tla", "RigoTrace.cfg"), "RigoTrace.tla", "RigoTrace.cfg", cwd_files={"trace.ndjson": os.path.abspath(trace)}, timeout=3000)
    if "VIOLATIONS" not in res.prints:
        print(res.output[-3000:]); return
    print(res.prints["CONSUMED"], "%.1fs" % res.wall)
    for x in res.print_json("VIOLATIONS"):
        print(x['trace'], x['line'], x['ev'], x['what'])
main()
