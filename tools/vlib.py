"""Shared orchestration for the rigo-go verification checks.

Every check is `./check <Cxx> <quick|thorough>`; this module provides: scratch
directories, building the Go conformance driver against /repo's working tree
(with -tags verif), running TLC / parsing its output, known-findings handling,
evidence writing and the exit-code protocol.

Exit codes: 0 property held on everything explored (KNOWN-FINDING lines allowed),
1 VIOLATION (printed as `VIOLATION property=<id> replay=<path>`), 2 machinery failure.
"""
import atexit
import json
import os
import re
import shutil
import subprocess
import sys
import tempfile
import time

VERIF = os.path.dirname(os.path.dirname(os.path.abspath(__file__)))
REPO = os.environ.get("VERIF_REPO", "/repo")
SPEC = os.path.join(VERIF, "spec")
HARNESS = os.path.join(VERIF, "harness")
EVIDENCE = os.path.join(VERIF, "evidence")
REPLAYS = os.path.join(VERIF, "replays")
KNOWN = os.path.join(VERIF, "known_findings.json")

GOENV = dict(os.environ, GOFLAGS="-mod=mod", GOPROXY="off", GOSUMDB="off", GOTOOLCHAIN="local")


class MachineryError(Exception):
    """Something prevented a judgement (build failure, TLC crash, dead driver)."""


def seed():
    try:
        return int(os.environ.get("VERIF_SEED", "1"))
    except ValueError:
        return 1


_scratch = None


def scratch():
    """A per-run scratch directory outside /repo and /verif, removed at exit."""
    global _scratch
    if _scratch is None:
        base = os.environ.get("VERIF_TMP") or ("/dev/shm" if os.path.isdir("/dev/shm") and os.access("/dev/shm", os.W_OK) else tempfile.gettempdir())
        _scratch = tempfile.mkdtemp(prefix="verif-", dir=base)
        if not os.environ.get("VERIF_KEEP"):
            atexit.register(shutil.rmtree, _scratch, True)
    return _scratch


def sub(name):
    d = os.path.join(scratch(), name)
    os.makedirs(d, exist_ok=True)
    return d


_driver = None
_driver_lock = __import__("threading").Lock()


def driver():
    """Build (once per run) the Go driver from /repo's current working tree."""
    with _driver_lock:
        return _driver_locked()


def _driver_locked():
    global _driver
    if _driver:
        return _driver
    t0 = time.time()
    hdir = HARNESS
    if os.path.realpath(REPO) != "/repo":
        # another tree (VERIF_REPO): build a copy of the harness whose module replacement points there
        hdir = os.path.join(scratch(), "harness")
        shutil.copytree(HARNESS, hdir)
        gm = os.path.join(hdir, "go.mod")
        text = open(gm).read().replace("=> /repo", "=> " + os.path.realpath(REPO))
        open(gm, "w").write(text)
    gosum = os.path.join(REPO, "go.sum")
    if os.path.exists(gosum):
        shutil.copyfile(gosum, os.path.join(hdir, "go.sum"))
    out = os.path.join(scratch(), "rigodrv")
    p = subprocess.run(["go", "build", "-tags", "verif", "-o", out, "./cmd/rigodrv"], cwd=hdir, env=GOENV,
                       stdout=subprocess.PIPE, stderr=subprocess.STDOUT, text=True)
    if p.returncode != 0:
        raise MachineryError("harness build failed against %s:\n%s" % (REPO, p.stdout[-4000:]))
    _driver = out
    log("built driver in %.1fs" % (time.time() - t0))
    return out


def log(msg):
    print("[check] " + msg, flush=True)


def run_driver(args, timeout=3600, env=None, check=True):
    """Run the Go driver; returns (returncode, stdout)."""
    e = dict(GOENV)
    e["TMPDIR"] = sub("gotmp")
    if env:
        e.update(env)
    p = subprocess.run([driver()] + [str(a) for a in args], stdout=subprocess.PIPE, stderr=subprocess.PIPE, text=True,
                       timeout=timeout, env=e)
    if check and p.returncode != 0:
        raise MachineryError("driver %s failed (%d): %s" % (args[0], p.returncode, (p.stderr or p.stdout)[-3000:]))
    return p.returncode, p.stdout


def driver_json(args, **kw):
    """Run the driver and parse the last stdout line as JSON."""
    _, out = run_driver(args, **kw)
    lines = [x for x in out.strip().splitlines() if x.strip()]
    if not lines:
        raise MachineryError("driver %s printed nothing" % args[0])
    try:
        return json.loads(lines[-1])
    except ValueError:
        raise MachineryError("driver %s: cannot parse %r" % (args[0], lines[-1][:300]))


# --------------------------------------------------------------------------- TLC

_tlc_n = 0
_tlc_lock = __import__("threading").Lock()

RE_STATES = re.compile(r"(\d+) states generated, (\d+) distinct states found, (\d+) states left on queue")
RE_PRINT = re.compile(r'^<<\s*"([A-Z_]+)",\s*(.*?)\s*>>$')


class TlcResult:
    def __init__(self):
        self.generated = 0
        self.distinct = 0
        self.queue = 0
        self.ok = False          # "Model checking completed. No error has been found."
        self.violated = []       # names of violated invariants / properties
        self.errors = []         # other error lines
        self.prints = {}         # PrintT(<<"KEY", ...>>) lines: KEY -> [raw payload,...]
        self.output = ""
        self.wall = 0.0
        self.coverage_zero = []  # spans never evaluated (-coverage)
        self.depth = 0
        self.timed_out = False

    def print_json(self, key, idx=-1):
        """Payload of PrintT(<<key, ToJson(x)>>) decoded."""
        raw = self.prints[key][idx]
        return json.loads(tla_string(raw))


def tla_string(raw):
    """Decode a TLA+ string literal as printed by TLC ("..." with \\" escapes)."""
    raw = raw.strip()
    if not (raw.startswith('"') and raw.endswith('"')):
        raise MachineryError("not a TLA string: %r" % raw[:100])
    body = raw[1:-1]
    return body.replace('\\"', '"').replace('\\\\', '\\')


def run_tlc(files, module, cfg, workers=1, timeout=900, simulate=None, depth=None, extra=None, cwd_files=None,
            coverage=False, tlc_seed=None, java_opts=None):
    """Run TLC in a fresh scratch dir.

    files: list of .tla/.cfg paths (copied flat). cwd_files: dict name->path of data files
    (e.g. trace.ndjson) placed next to them. Returns TlcResult (never raises on a property
    violation; raises MachineryError on crashes/timeouts is left to the caller via .errors).
    """
    global _tlc_n
    with _tlc_lock:
        _tlc_n += 1
        d = sub("tlc%d" % _tlc_n)
    for f in files:
        shutil.copy(f, d)
    for name, path in (cwd_files or {}).items():
        dst = os.path.join(d, name)
        if os.path.abspath(path) != dst:
            if os.path.exists(dst):
                os.remove(dst)
            try:
                os.link(path, dst)
            except OSError:
                shutil.copy(path, dst)
    jtmp = os.path.join(d, "jtmp")   # TLC unpacks its standard modules into java.io.tmpdir and leaves them there
    os.makedirs(jtmp, exist_ok=True)
    cmd = ["java", "-XX:+UseParallelGC", "-Xss64m", "-Djava.io.tmpdir=" + jtmp]
    if java_opts:
        cmd += java_opts
    cmd += ["-cp", "/opt/veriftools/tla/tla2tools.jar:/opt/veriftools/tla/CommunityModules-deps.jar", "tlc2.TLC",
            "-workers", str(workers), "-metadir", os.path.join(d, "md"), "-config", os.path.basename(cfg),
            "-seed", str(tlc_seed if tlc_seed is not None else seed()), "-fp", "7"]
    if simulate:
        cmd += ["-simulate", simulate]
    if depth:
        cmd += ["-depth", str(depth)]
    if coverage:
        cmd += ["-coverage", "1"]
    if extra:
        cmd += extra
    cmd += [os.path.basename(module)]
    res = TlcResult()
    t0 = time.time()
    try:
        p = subprocess.run(cmd, cwd=d, stdout=subprocess.PIPE, stderr=subprocess.STDOUT, text=True, timeout=timeout)
        out = p.stdout
    except subprocess.TimeoutExpired as e:
        out = (e.stdout or b"").decode("utf-8", "replace") if isinstance(e.stdout, bytes) else (e.stdout or "")
        res.timed_out = True
        subprocess.run(["pkill", "-f", os.path.join(d, "md")])
    res.wall = time.time() - t0
    res.output = out
    res.dir = d
    # TLC wraps long PrintT tuples over several lines: re-join them
    joined, buf = [], None
    for line in out.splitlines():
        if buf is not None:
            buf += " " + line.strip()
            if line.rstrip().endswith(">>"):
                joined.append(buf)
                buf = None
            continue
        if line.startswith("<<") and not line.rstrip().endswith(">>"):
            buf = line.strip()
            continue
        joined.append(line)
    if buf is not None:
        joined.append(buf)
    for line in joined:
        m = RE_STATES.search(line)
        if m:
            res.generated, res.distinct, res.queue = int(m.group(1)), int(m.group(2)), int(m.group(3))
        if "No error has been found" in line:
            res.ok = True
        m = re.match(r"Error: Invariant (\S+) is violated", line)
        if m:
            res.violated.append(m.group(1))
        m = re.match(r"Error: Action property (\S+) is violated", line)
        if m:
            res.violated.append(m.group(1))
        m = re.match(r"Error: Temporal properties were violated", line)
        if m:
            res.violated.append("temporal")
        if line.startswith("Error:") and "is violated" not in line and "behavior up to this point" not in line \
                and "Temporal properties were violated" not in line:
            res.errors.append(line)
        m = re.search(r"The depth of the complete state graph search is (\d+)", line)
        if m:
            res.depth = int(m.group(1))
        m = RE_PRINT.match(line.strip())
        if m:
            res.prints.setdefault(m.group(1), []).append(m.group(2))
        if coverage:
            m = re.match(r"\s*(line \d+, col \d+ to line \d+, col \d+ of module \S+): 0$", line)
            if m:
                res.coverage_zero.append(m.group(1))
    if res.timed_out:
        res.errors.append("TLC timed out after %ds" % timeout)
    return res


def tlc_failed(res):
    """True if TLC did not produce a judgement (crash, parse error, timeout)."""
    return bool(res.errors) or (not res.ok and not res.violated)


def spec_files(*names):
    out = []
    for n in names:
        for cand in (os.path.join(SPEC, n), os.path.join(SPEC, "mc", n), os.path.join(SPEC, "trace", n)):
            if os.path.exists(cand):
                out.append(cand)
                break
        else:
            raise MachineryError("spec file %s not found" % n)
    return out


def counterexample(res, maxlen=6000):
    i = res.output.find("Error:")
    return res.output[i:i + maxlen] if i >= 0 else ""


# --------------------------------------------------------------------------- findings / verdict


def known_findings(prop):
    try:
        with open(KNOWN) as f:
            data = json.load(f)
    except FileNotFoundError:
        return []
    return [e for e in data.get("findings", []) if e.get("property") == prop and e.get("status") == "open"]


def matches(sig, obs):
    """A known-finding signature matches an observation if every signature key is
    present in the observation with an equal value (lists: membership)."""
    for k, v in sig.items():
        if k not in obs:
            return False
        o = obs[k]
        if isinstance(v, list):
            if o not in v:
                return False
        elif o != v:
            return False
    return True


class Verdict:
    """Collects violations (each: dict with 'what' + observation fields) and machinery problems."""

    def __init__(self, prop, tier):
        self.prop = prop
        self.tier = tier
        self.violations = []
        self.diffs = []
        self.t0 = time.time()
        self.coverage = {}
        self.assumptions = []
        self.samples = []

    def violation(self, what, obs=None, replay=None):
        self.violations.append({"what": what, "obs": obs or {}, "replay": replay})

    def diff(self, what):
        """Spec/code mismatch that touches no listed property: diagnostic only."""
        self.diffs.append(what)

    def finish(self, level, coverage, assumptions=None):
        findings = known_findings(self.prop)
        unexplained = []
        reported = set()
        for v in self.violations:
            hit = None
            for f in findings:
                if matches(f.get("signature", {}), v["obs"]):
                    hit = f
                    break
            if hit is None:
                unexplained.append(v)
            elif hit["id"] not in reported:
                reported.add(hit["id"])
                print("KNOWN-FINDING: property=%s %s [%s]" % (self.prop, hit.get("what", ""), hit["id"]), flush=True)
        for d in self.diffs[:20]:
            print("CONFORMANCE-DIFF (no listed property): %s" % d, flush=True)
        os.makedirs(EVIDENCE, exist_ok=True)
        cov = dict(coverage)
        cov.setdefault("samples", self.samples[:5] or [{"note": "no sample recorded"}])
        cov["conformance_diffs"] = len(self.diffs)
        cov["known_findings_reproduced"] = sorted(reported)
        ev = {
            "property_id": self.prop,
            "tier": self.tier,
            "seed": seed(),
            "level": level,
            "coverage": cov,
            "assumptions": assumptions or [],
            "wall_s": round(time.time() - self.t0, 2),
            "violations": len(unexplained),
        }
        with open(os.path.join(EVIDENCE, self.prop + ".json"), "w") as f:
            json.dump(ev, f, indent=1, sort_keys=True)
            f.write("\n")
        if unexplained:
            os.makedirs(REPLAYS, exist_ok=True)
            seen = set()
            for i, v in enumerate(unexplained[:10]):
                path = v["replay"]
                if not path:
                    path = os.path.join(REPLAYS, "%s-%s-seed%d-%d.json" % (self.prop, self.tier, seed(), i))
                    with open(path, "w") as f:
                        json.dump({"property": self.prop, "what": v["what"], "observation": v["obs"]}, f, indent=1, default=str)
                if path in seen:
                    continue
                seen.add(path)
                print("VIOLATION property=%s replay=%s" % (self.prop, path), flush=True)
                print("  " + v["what"][:1500], flush=True)
            return 1
        log("%s %s: held on everything explored (%.1fs)" % (self.prop, self.tier, time.time() - self.t0))
        return 0


def tier_from_env(default):
    return os.environ.get("VERIF_TIER", default)
