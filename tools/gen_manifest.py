#!/usr/bin/env python3
"""Regenerates /verif/MANIFEST.json from the table below (single source of truth)."""
import json
import os
import subprocess

VERIF = os.path.dirname(os.path.dirname(os.path.abspath(__file__)))

BASELINE_OFF = ("cd /repo && GOFLAGS=-mod=mod GOPROXY=off GOSUMDB=off go test -mod=mod -vet=off -count=1 -json "
                "./cmd/... ./ctrlers/account/... ./ctrlers/stake/... ./ctrlers/types/... ./ctrlers/vm/... ./ledger/... "
                "./libs/sfeeder/server/... ./node/... ./sfeeder/common/... ./types/...")

# id -> (category, technique, text, note, design_ref)
CLAIMED = {
    "C18": ("model_checking",
            "TLA+ spec Ledger.tla: exhaustive TLC + TLC-generated behaviours replayed on the real ledger + trace validation of random call sequences",
            "Ledger.tla states C18 as an overlay map with tombstone counters and immutable version history; TLC checks the C18 formulas "
            "(read-your-writes incl. re-creation after deletion, mempool invisibility, exact commit, immutable history) exhaustively on "
            "2 keys x 2 values; the real ledger.FinalityLedger is bound to it both ways: TLC-simulated behaviours are replayed on it and "
            "seeded random call sequences (with reopen) are recorded, and in both cases TLC validates every returned value against the spec.",
            "small-scope exhaustive for the design; sampled call sequences for the code; IAVL/goleveldb trusted; results after Cancel* are compared but not judged",
            "DESIGN.md 4.2, 6/C18"),
    "C20": ("model_checking",
            "TLA+ spec PrivVal.tla: exhaustive TLC (crash/reload at every point) + TLC-generated behaviours replayed on the real SFilePV + trace validation with C20 predicates on recorded signatures and state files",
            "PrivVal.tla models the signer with persist and release as separate steps; TLC checks NoDoubleSign, Monotone, PersistBeforeRelease and "
            "ReplayReturnsOriginal exhaustively (heights 1-2, rounds 0-1, 3 steps, 3 block ids, 2 timestamps). The real SFilePV is driven with "
            "TLC-simulated and random request sequences incl. reloads from the files and a process death injected (hook) between persist and release; "
            "TLC evaluates the C20 predicates on the recorded signatures, returned timestamps and decoded state-file contents.",
            "small-scope exhaustive design; sampled request sequences for the code; atomic file replacement and secp256k1 trusted",
            "DESIGN.md 4.7, 6/C20"),
}

NOT_YET = "check not built yet in this round (planned: see DESIGN.md section 6)"


def main():
    props = [json.loads(l) for l in open(os.path.join(VERIF, "properties.jsonl"))]
    hooks = subprocess.run(["git", "-C", "/repo", "log", "--format=%H %s"], stdout=subprocess.PIPE, text=True).stdout.splitlines()
    hook_commits = [l.split()[0] for l in hooks if "verif hooks" in l]
    checks = []
    na = []
    for p in props:
        pid = p["id"]
        if pid in CLAIMED:
            cat, tech, text, note, ref = CLAIMED[pid]
            checks.append({
                "property_id": pid,
                "quick_cmd": "./check %s quick" % pid,
                "thorough_cmd": "./check %s thorough" % pid,
                "evidence_file": "/verif/evidence/%s.json" % pid,
                "replay_cmd_template": "./check %s --replay {path}" % pid,
                "engine": "tlc+rigodrv",
                "level_claimed": {"category": cat, "text": text, "design_ref": ref},
                "level_note": note,
                "technique": tech,
            })
        else:
            na.append({"property_id": pid, "reason": NOT_YET})
    man = {
        "version": 1,
        "setup_cmd": "cd /verif && ./setup.sh",
        "hooks": {
            "guard": "verif",
            "enable": "go build -tags verif (the harness module in /verif/harness replaces github.com/rigochain/rigo-go with /repo)",
            "baseline_off_cmd": BASELINE_OFF,
            "source_commits": hook_commits,
            "add_only": True,
        },
        "engines": [
            {"name": "tlc", "path": "/opt/veriftools/tla/tla2tools.jar", "serves_properties": sorted(CLAIMED),
             "kind_free_text": "TLC 1.8.0 explicit-state model checker: exhaustive runs of spec/mc/*.cfg, -simulate behaviour generation, trace validation of spec/trace/*Trace.tla"},
            {"name": "rigodrv", "path": "/verif/harness", "serves_properties": sorted(CLAIMED),
             "kind_free_text": "Go conformance driver built with -tags verif against /repo's working tree; executes inputs on the real code and records ndjson traces"},
        ],
        "checks": checks,
        "not_applicable": na,
        "notes": "All checks: ./check <id> <quick|thorough>; VERIF_SEED selects the random seed. Exit 2 = machinery failure (never a verdict).",
    }
    with open(os.path.join(VERIF, "MANIFEST.json"), "w") as f:
        json.dump(man, f, indent=1)
        f.write("\n")


if __name__ == "__main__":
    main()
