#!/usr/bin/env python3
"""Regenerates /verif/MANIFEST.json from the table below (single source of truth)."""
import json
import os
import subprocess

VERIF = os.path.dirname(os.path.dirname(os.path.abspath(__file__)))

BASELINE_OFF = ("cd /repo && GOFLAGS=-mod=mod GOPROXY=off GOSUMDB=off go test -mod=mod -vet=off -count=1 -json "
                "./cmd/... ./ctrlers/account/... ./ctrlers/stake/... ./ctrlers/types/... ./ctrlers/vm/... ./ledger/... "
                "./libs/sfeeder/server/... ./node/... ./sfeeder/common/... ./types/...")

# id -> (category, technique, text, note, design_ref)
CLAIMED = {
    "C18": ("model_checking",
            "TLA+ spec Ledger.tla: exhaustive TLC + TLC-generated behaviours replayed on the real ledger + trace validation of random call sequences",
            "Ledger.tla states C18 as an overlay map with tombstone counters and immutable version history; TLC checks the C18 formulas "
            "(read-your-writes incl. re-creation after deletion, mempool invisibility, exact commit, immutable history) exhaustively on "
            "2 keys x 2 values; the real ledger.FinalityLedger is bound to it three ways: TLC-simulated behaviours are replayed on it, "
            "seeded random call sequences (with reopen) are recorded, and EVERY sequence of exactly 4 (quick) / 5 (thorough) operations of one overlay on one key "
            "(set, delete, cancel-set, cancel-delete, read; key absent / committed; both overlays) is executed, each followed by reads through both overlays, "
            "a commit, tree and historical reads and a reopen; in all cases TLC validates every returned value against the spec (historical reads through "
            "Read and through the view's cached Get).",
            "small-scope exhaustive for the design; exhaustive for short overlay sequences and sampled for longer call sequences on the code; IAVL/goleveldb trusted",
            "DESIGN.md 4.2, 6/C18"),
    "C20": ("model_checking",
            "TLA+ spec PrivVal.tla: exhaustive TLC (crash/reload at every point) + TLC-generated behaviours replayed on the real SFilePV + trace validation with C20 predicates on recorded signatures and state files",
            "PrivVal.tla models the signer with persist and release as separate steps; TLC checks NoDoubleSign, Monotone, PersistBeforeRelease and "
            "ReplayReturnsOriginal exhaustively (heights 1-2, rounds 0-1, 3 steps, 3 block ids, 2 timestamps). The real SFilePV is driven with "
            "TLC-simulated and random request sequences incl. reloads from the files and a process death injected (hook) between persist and release; "
            "TLC evaluates the C20 predicates on the recorded signatures, returned timestamps and decoded state-file contents. Every sequence runs under one of "
            "four order-preserving embeddings of heights / rounds into the 64 / 32-bit ranges (next to 2^29, 2^31, 2^62, the top of int32) and one of four "
            "concretisations of the abstract block ids (all components differ / only the part-set hash / only the number of parts / only the block hash); the abstract "
            "timestamps are made concrete with fractions of different encoded lengths. Thorough tier: "
            "Apalache proves an inductive invariant (PrivValInd.tla, contains NoDoubleSign and PersistBeforeRelease) - unbounded in the number of steps.",
            "small-scope exhaustive design (+ inductive invariant for any number of steps); sampled request sequences for the code; atomic file replacement and secp256k1 trusted",
            "DESIGN.md 4.7, 6/C20"),
}


TRACE = ("RigoProps.tla predicates evaluated by TLC on recorded (pre-state, call, response, post-state) of the real RigoApp "
         "(RigoTrace.tla), directed scenarios + seeded random block histories")
NOTE = ("consensus engine simulated at the ABCI boundary per Tendermint 0.34; histories sampled (directed + random; genesis families from "
        "validators of power 1 to validators of 10^17 power, the latter recorded in units of 10^12 powers and judged with the stake unit 10^30), "
        "predicates exact (256-bit arithmetic in BigNat.tla); harness projections trusted, cross-checked by the Query path")


MC = (" Design level: RigoCore.tla (the application as a function of its state) is model-checked in its consensus environment "
      "(MC_Rigo.tla; bounded configurations MC_Value / MC_Stake / MC_Limiter / MC_Gov / MC_Restart) with the invariant that no clause of any property is "
      "violated by any step; the judging operators are the same ones that judge the recorded traces. Binding of the model to the code: every recorded "
      "call is also executed by RigoCore.tla and compared field by field (RigoConf.tla; differences are printed as CONFORMANCE-DIFF, never a verdict).")


def app(text, ref, level="model_checking"):
    return (level, "TLA+ spec RigoCore.tla model-checked with TLC (bounded) + TLA+ trace validation: " + TRACE, text + MC,
            NOTE + "; model checking is small-scope (2-4 accounts, 1-3 validators, 3-7 blocks, 1-2 transactions per block)", ref)


CLAIMED.update({
    "C01": ("exploration", "2-safety on recorded replica pairs (ReplicasTrace.tla): same history in a separate OS process and directory, and with restarts",
            "Every history is executed by replica A in-process, by replica B in a separately started OS process on its own directory (started in a "
            "later second of the wall clock; clock probes: transactions whose signed creation time lies just beyond round distances from the "
            "moment of execution are re-signed right before replica A runs), and by a "
            "replica restarted at random block boundaries; TLC checks that every DeliverTx result (code, data, gas), every validator-update list "
            "and every application hash is identical, and that the consensus-state digests agree after every call.",
            "one Go toolchain/architecture; histories sampled", "DESIGN.md 6/C01"),
    "C02": app("Stepwise conservation: after every ABCI call balances + bonded + unbonding stake + pending fees change only by withdrawn "
               "rewards, slashed stake (only with evidence against the delegatee), fees of a proposer-less block and self-destruct burns; "
               "cumulative equation at every commit; exact 256-bit arithmetic; boundary amounts and contract value flows included.", "DESIGN.md 6/C02"),
    "C03": app("Mutation matrix: for every transaction type a transaction known to succeed is signed, then every single-field mutation "
               "(incl. narrowing probes), signature byte flips, truncated/extended signatures, six other chain ids, other signers and the "
               "protobuf pre-image are delivered and must fail without any state change; the unmutated transaction must then succeed. Bytes the "
               "signature does not cover (a payload attached to a type that has none) must not be executed: such a delivery does exactly what "
               "the signed transaction does (reference run of the signed transaction).", "DESIGN.md 6/C03"),
    "C04": app("Nonce predicates on every recorded step: success only at the sender's nonce, +1 on success, unchanged on failure, nobody "
               "else's nonce changes (contracts inside an EVM transaction excepted), no signed transaction takes effect twice; replay pool in "
               "the generator, native and contract transactions mixed.", "DESIGN.md 6/C04"),
    "C05": app("For every failed DeliverTx the full observable projection (accounts, stakes, unbonding, rewards, proposals, parameters, "
               "contract code/storage digests, fee sum, stake-limiter state) must equal the one before; failure catalogue in directed scenarios, "
               "random invalid transactions, EVM reverts / out-of-gas / invalid jumps.", "DESIGN.md 6/C05"),
    "C06": ("model_checking", "TLA+ spec RigoCore.tla (mempool scratch view) model-checked with TLC (MC_Mempool) + 2-safety on recorded replica pairs "
            "(ReplicasTrace.tla): quiet replica vs replica with CheckTx/Query injected in every gap + stepwise clause on recorded CheckTx calls (RigoTrace.tla)",
            "For every block of the base histories (some with restarts), every gap (before BeginBlock, between DeliverTx calls, before EndBlock, before and "
            "after Commit) x every element of a state-aware pool (duplicates of block transactions, staking/unstaking against every delegatee, next "
            "transfers, withdraw, proposal, vote, garbage, re-checks (CheckTx of type Recheck), every query path at several heights) is injected into "
            "replica B, plus mempool sessions (a transaction seen before its block, the sender's next one, waiting transactions re-checked after the commit); outputs and consensus-state "
            "digests must equal the quiet replica's after every call. Single-replica histories with heavy mempool-only traffic: every recorded CheckTx "
            "must leave everything block execution reads unchanged (ledgers, parameters, block limiter, reported validator set, EVM bridge state), and "
            "its result must be the one RigoCore.tla's scratch view predicts (RigoConf.tla). Design level: MC_Mempool interleaves a CheckTx of any "
            "menu transaction at any point; all clauses judge those steps.",
            "single and (thorough) paired injections; histories sampled; model checking is small-scope", "DESIGN.md 6/C06, 11.10"),
    "C07": ("model_checking", "TLA+ spec RigoCore.tla (Restart step) model-checked with TLC (MC_Restart) + 2-safety on recorded replica pairs (ReplicasTrace.tla): "
            "continuous replica vs replica restarted at block boundaries",
            "Replica B is restarted (fresh process state on a copy of the data directory) after each single boundary, after pairs/subsets of "
            "boundaries and after every block; Info must report the last commit's height and hash, all later outputs and state digests "
            "(incl. rebuilt volatile state: last validator set, limiter, reward-hash, EVM root) must equal the continuous replica's. Design level: "
            "MC_Restart applies RigoCore!Restart at any block boundary of the bounded model; the C07 clauses (and all others) judge every step.",
            "histories sampled (biased to staking, membership, governance changes); model checking is small-scope", "DESIGN.md 6/C07"),
    "C08": ("fault_enumeration", "TLA+ model Durability.tla (commit refined into durable writes, crash anywhere) + enumeration of every crash point on the real code, judged by DurabilityTrace.tla",
            "Every crash point of every block in the window is taken on the real application: a copy of the data directory after each consensus "
            "call and (DurableWrite hook) after each durable write inside Commit; each copy is reopened, Info checked, the handshake rule applied, "
            "the interrupted block replayed and the history continued; hashes compared with the never-crashed run. The genesis block is swept as well "
            "(InitChain on a fresh directory; on recovery InitChain is delivered again to an application that reports height 0); histories with contract "
            "state are included. TLC enumerates the as-built model's bricking points; model, code and known-findings file agree (three-way).",
            "process death (directory copy), not power loss; Tendermint handshake rule modelled from its source", "DESIGN.md 4.5, 6/C08"),
    "C09": ("exploration", "hostile-input exploration on the real application judged by HostileTrace.tla (no panic, rejected input leaves the state digest unchanged, probe still succeeds)",
            "Structure-aware hostile generators (random bytes, mutated valid encodings, hostile envelopes, correctly signed transactions with hostile "
            "payloads, every valid transaction with exactly one wire field replaced by a hostile value, proposals valid in everything but type / option list, "
            "valid UTF-8 strings around the length limits, every opcode 0x00-0xff as contract code, queries on every path with hostile data/heights) against CheckTx, DeliverTx at every block position and Query; restarts with mempool traffic "
            "before the next block; ten settlement blocks afterwards (a panic in a later consensus call is judged too); coverage is reported per deepest "
            "validation layer reached.", "sampling of an infinite input space; the specification supplies the oracle", "DESIGN.md 6/C09"),
    "C10": app("Validator updates of every EndBlock are folded over the genesis set; the result must be a correct top selection (eligibility by own "
               "stake, size, power = total bonded power, no better excluded candidate) of the delegatee ledger committed by the previous block as "
               "returned by queries, and every update must be well-formed; the simulated consensus engine applies Tendermint's update rules.", "DESIGN.md 6/C10"),
    "C11": app("On every recorded state: total/self power = sums over stakes; stakes appear only by a successful staking transaction (recorded under "
               "its target with power = amount/10^18), vanish only by refund or forfeiture, are never in two places, owner/target fixed, power changes "
               "only under evidence; total-power query = sum.", "DESIGN.md 6/C11"),
    "C12": app("Per unbonding stake: released only by its creator, no power afterwards, refund height = release height + period in force, unchanged "
               "while waiting, leaves only at an EndBlock >= refund height and then credits exactly power x 10^18 to the owner and nobody else, "
               "matured stakes must be refunded, never unbonds twice; governance changes of the period mid-flight.", "DESIGN.md 6/C12"),
    "C13": app("Issuance at every BeginBlock = sum over signed votes of the stakes recorded at the look-back height (queries) x reward-per-power, per "
               "owner, nothing else changes rewards; withdrawals bounded by and subtracted from the withdrawable amount exactly.", "DESIGN.md 6/C13"),
    "C14": app("At every BeginBlock the recorded post-state must equal: stakes of each accused known validator cut by floor(p*r/100) per evidence "
               "occurrence (too small ones forfeited), its voting weight and the tallies in open proposals cut likewise, validators below the "
               "signing threshold fully moved to unbonding with the right refund height, everything else unchanged. The threshold is also judged on the "
               "misses that really happened (folded over the recorded calls), not only on the record's marks: known finding D14 (marks trimmed "
               "to an earlier, smaller window are not counted after governance enlarges the window).", "DESIGN.md 6/C14, 11.3"),
    "C15": app("Proposal lifecycle on recorded states: proposer and voters = validators last reported to consensus with their power, window/"
               "period/applying-height rules, votes only by voters inside the window with latest choice replacing, tallies = sums at every state, "
               "adoption only with >= floor(2*total/3), application not before the applying height, merge keeps unset fields, parameters switch "
               "only at commit and equal the governance query.", "DESIGN.md 6/C15"),
    "C16": app("Admission (price = governance price, gas x price >= minimum fee), exact native cost, gas used <= limit and total balances fall by "
               "exactly gas used x price for contract transactions, fee sum grows by gas used x price only on success, proposer credited exactly "
               "the fee sum at EndBlock and nobody else's balance changes except matured refunds; across governance price changes.", "DESIGN.md 6/C16"),
    "C17": ("model_checking", "TLA+ spec EvmBridge.tla model-checked (sync-in/tag/revert/write-back protocol) + validation of the recorded wrapper operation stream (EvmOp hooks) + differential run against the reference EVM, all judged by TLC on recorded traces",
            "For every admissible contract transaction, deployment, and transfer to an address with code, the same go-ethereum interpreter is run on a "
            "deep copy of the EVM state in which every native account's balance and nonce is set from the native ledger, with block context and "
            "message built independently; success/failure, gas used, return/revert data, logs, all balances and nonces, and code/storage digests of "
            "all contracts must agree; failed transactions must have no effect. EvmBridge.tla models the wrapper's sync-in / snapshot-tag / revert / "
            "write-back protocol; TLC proves NoStaleRead and WriteBackExact for all interleavings (small scope) and refutes two wrong tagging rules; "
            "the operation stream recorded by the EvmOp hooks from every real contract transaction is checked against the same protocol.",
            "the go-ethereum interpreter is trusted; assembled program templates (no compiler in the sandbox) + random parameters", "DESIGN.md 6/C17"),
    "C19": app("Every query (account, delegatee, reward, gov_params, total power) at any height 1..latest, asked between blocks, mid-block and after "
               "restarts, must equal the consensus view recorded at the end of that block; beyond-latest heights must fail; raw answers for a past "
               "height never change (every commit first asks all paths again for the previous height); at every commit the full state read back "
               "through queries equals what the block committed.", "DESIGN.md 6/C19"),
})

NOT_YET = "check not built yet in this round (planned: see DESIGN.md section 6)"


def main():
    props = [json.loads(l) for l in open(os.path.join(VERIF, "properties.jsonl"))]
    hooks = subprocess.run(["git", "-C", "/repo", "log", "--format=%H %s"], stdout=subprocess.PIPE, text=True).stdout.splitlines()
    hook_commits = [l.split()[0] for l in hooks if "verif hooks" in l]
    checks = []
    na = []
    for p in props:
        pid = p["id"]
        if pid in CLAIMED:
            cat, tech, text, note, ref = CLAIMED[pid]
            checks.append({
                "property_id": pid,
                "quick_cmd": "./check %s quick" % pid,
                "thorough_cmd": "./check %s thorough" % pid,
                "evidence_file": "/verif/evidence/%s.json" % pid,
                "replay_cmd_template": "./check %s --replay {path}" % pid,
                "engine": "tlc+rigodrv",
                "level_claimed": {"category": cat, "text": text, "design_ref": ref},
                "level_note": note,
                "technique": tech,
            })
        else:
            na.append({"property_id": pid, "reason": NOT_YET})
    man = {
        "version": 1,
        "setup_cmd": "cd /verif && ./setup.sh",
        "hooks": {
            "guard": "verif",
            "enable": "go build -tags verif (the harness module in /verif/harness replaces github.com/rigochain/rigo-go with /repo)",
            "baseline_off_cmd": BASELINE_OFF,
            "source_commits": hook_commits,
            "add_only": True,
        },
        "engines": [
            {"name": "tlc", "path": "/opt/veriftools/tla/tla2tools.jar", "serves_properties": sorted(CLAIMED),
             "kind_free_text": "TLC 1.8.0 explicit-state model checker: exhaustive runs of spec/mc/*.cfg, -simulate behaviour generation, trace validation of spec/trace/*Trace.tla"},
            {"name": "rigodrv", "path": "/verif/harness", "serves_properties": sorted(CLAIMED),
             "kind_free_text": "Go conformance driver built with -tags verif against /repo's working tree; executes inputs on the real code and records ndjson traces"},
        ],
        "checks": checks,
        "not_applicable": na,
        "notes": "All checks: ./check <id> <quick|thorough>; VERIF_SEED selects the random seed. Exit 2 = machinery failure (never a verdict).",
    }
    with open(os.path.join(VERIF, "MANIFEST.json"), "w") as f:
        json.dump(man, f, indent=1)
        f.write("\n")


if __name__ == "__main__":
    main()
