// Package pvdrv drives the real file-backed signer (types/crypto.SFilePV)
// with signing requests, reloads and crashes between persist and release,
// and records one ndjson event per step (C20).
package pvdrv

import (
	"bufio"
	"bytes"
	"encoding/json"
	"fmt"
	"math"
	"math/rand"
	"os"
	"path/filepath"
	"strings"
	"time"

	"github.com/rigochain/rigo-go/libs/verifhook"
	rcrypto "github.com/rigochain/rigo-go/types/crypto"
	"github.com/tendermint/tendermint/libs/protoio"
	tmproto "github.com/tendermint/tendermint/proto/tendermint/types"
	tmtypes "github.com/tendermint/tendermint/types"
)

const chainID = "verif-chain"

var baseTime = time.Date(2024, 1, 1, 0, 0, 0, 0, time.UTC)

// Step is one element of an input sequence.
type Step struct {
	Ev    string `json:"ev"` // "Sign" | "Reload"
	H     int64  `json:"h"`
	R     int32  `json:"r"`
	S     int    `json:"s"` // 1 proposal, 2 prevote, 3 precommit
	Bid   int    `json:"bid"`
	Ts    int    `json:"ts"`
	Crash bool   `json:"crash"` // die right after the last-sign record became durable
}

type diskRec struct {
	H      int64 `json:"h"`
	R      int32 `json:"r"`
	S      int   `json:"s"`
	Signed bool  `json:"signed"`
	Bid    int   `json:"bid"`
	Ts     int   `json:"ts"`
}

type crashSentinel struct{}

// Order-preserving embeddings of the abstract heights and rounds of a request sequence into the concrete 64 / 32 bit
// ranges: the signer's decisions depend only on the order of (height, round, step), so every embedding must give the
// same answers - including those that put the values next to 2^29, 2^31 and the ends of the integer types.
type embedding struct {
	name  string
	hOff  int64 // concrete height = abstract + hOff
	rOff  int32 // concrete round  = abstract + rOff for abstract >= 1 (round 0 stays 0 when rZero)
	rZero bool
}

var embeddings = []embedding{
	{"identity", 0, 0, false},
	{"rounds next to 2^29", 0, 1<<29 - 2, true},
	{"rounds at the top of int32, heights across 2^31", 1<<31 - 3, math.MaxInt32 - 64, false},
	{"heights next to 2^62, rounds next to 2^30", 1 << 62, 1<<30 - 1, true},
}

func (e embedding) h(a int64) int64 { return a + e.hOff }
func (e embedding) r(a int32) int32 {
	if e.rZero && a == 0 {
		return 0
	}
	if a > 60 {
		a = 60
	}
	return a + e.rOff
}
func (e embedding) hInv(c int64) int64 {
	if c <= 0 {
		return c
	}
	return c - e.hOff
}
func (e embedding) rInv(c int32) int32 {
	if c == 0 { // round 0 of the embedding, or the fresh state file
		return 0
	}
	return c - e.rOff
}

// The abstract block ids 1, 2, 3 ... of the specification are made concrete in several ways: block ids that differ
// in every component, and block ids that differ in exactly one component (block hash, number of parts, hash of the
// part set).  Two different abstract ids are two different blocks in every mode.
var bidModes = []string{"all components differ", "only the part-set hash differs", "only the number of parts differs", "only the block hash differs"}

func rep(b int) []byte { return bytes.Repeat([]byte{byte(b)}, 32) }

func (r *runner) blockID(i int) tmproto.BlockID {
	if i == 0 {
		return tmproto.BlockID{}
	}
	switch r.bidMode {
	case 1:
		return tmproto.BlockID{Hash: rep(0x77), PartSetHeader: tmproto.PartSetHeader{Total: 3, Hash: rep(i)}}
	case 2:
		return tmproto.BlockID{Hash: rep(0x77), PartSetHeader: tmproto.PartSetHeader{Total: uint32(i), Hash: rep(0x55)}}
	case 3:
		return tmproto.BlockID{Hash: rep(i), PartSetHeader: tmproto.PartSetHeader{Total: 3, Hash: rep(0x55)}}
	}
	return tmproto.BlockID{Hash: rep(i), PartSetHeader: tmproto.PartSetHeader{Total: 1, Hash: rep(i)}}
}

func (r *runner) bidOf(b *tmproto.CanonicalBlockID) int {
	if b == nil || len(b.Hash) == 0 {
		return 0
	}
	switch r.bidMode {
	case 1:
		if len(b.PartSetHeader.Hash) == 0 {
			return -1
		}
		return int(b.PartSetHeader.Hash[0])
	case 2:
		return int(b.PartSetHeader.Total)
	}
	return int(b.Hash[0])
}

// The abstract timestamps 0, 1, 2 ... of the specification are made concrete as whole seconds plus a fraction that
// depends on the timestamp: 0 ns, 100 ns, 0.64 s, 1.5 ms, 16 us, 0.3 s ... - the protobuf encodings of two different
// timestamps differ in length as well as in content (a fraction of 0 is left out, the others take 1 to 5 bytes).
var tsNanos = []time.Duration{0, 0, 100, 640000000, 1500000, 16000, 300000000}

func timeOf(ts int) time.Time {
	return baseTime.Add(time.Duration(ts)*time.Second + tsNanos[((ts%len(tsNanos))+len(tsNanos))%len(tsNanos)])
}

func tsOf(t time.Time) int {
	d := t.Sub(baseTime)
	if d < 0 || d > 1000*time.Second {
		return -1
	}
	ts := int(d / time.Second)
	if !timeOf(ts).Equal(t) {
		return -1
	}
	return ts
}

type runner struct {
	dir     string
	pv      *rcrypto.SFilePV
	sigTok  map[string]int
	armed   bool
	keyFile string
	stFile  string
	emb     embedding
	bidMode int
}

func (r *runner) readDisk() diskRec {
	var st struct {
		Height    int64  `json:"height,string"`
		Round     int32  `json:"round"`
		Step      int8   `json:"step"`
		Signature []byte `json:"signature"`
		SignBytes string `json:"signbytes"`
	}
	bz, err := os.ReadFile(r.stFile)
	if err != nil {
		return diskRec{H: -1}
	}
	if err := json.Unmarshal(bz, &st); err != nil {
		// tmjson encodes int64 as string; fall back to a lenient parse
		var raw map[string]any
		if json.Unmarshal(bz, &raw) != nil {
			return diskRec{H: -1}
		}
	}
	d := diskRec{H: r.emb.hInv(st.Height), R: r.emb.rInv(st.Round), S: int(st.Step)}
	if st.SignBytes != "" {
		d.Signed = true
		sb := make([]byte, len(st.SignBytes)/2)
		_, _ = fmt.Sscanf(strings.ToLower(st.SignBytes), "%x", &sb)
		if d.S == 1 {
			var p tmproto.CanonicalProposal
			if protoio.UnmarshalDelimited(sb, &p) == nil {
				d.Bid, d.Ts = r.bidOf(p.BlockID), tsOf(p.Timestamp)
			}
		} else {
			var v tmproto.CanonicalVote
			if protoio.UnmarshalDelimited(sb, &v) == nil {
				d.Bid, d.Ts = r.bidOf(v.BlockID), tsOf(v.Timestamp)
			}
		}
	}
	return d
}

func classify(err error) string {
	s := err.Error()
	switch {
	case strings.Contains(s, "regression"):
		return "regression"
	case strings.Contains(s, "conflicting data"):
		return "conflict"
	case strings.Contains(s, "no SignBytes"):
		return "nosignbytes"
	}
	return "other"
}

func (r *runner) sign(st Step) map[string]any {
	ev := map[string]any{"ev": "Sign", "h": st.H, "r": st.R, "s": st.S, "bid": st.Bid, "ts": st.Ts, "crash": st.Crash,
		"res": "err", "err": "", "sig": 0, "rts": 0, "valid": false, "leaked": false}
	ts := timeOf(st.Ts)
	var sig []byte
	var rts time.Time
	var signBytes func() []byte
	var err error
	crashed := false
	func() {
		defer func() {
			if p := recover(); p != nil {
				if _, ok := p.(crashSentinel); ok {
					crashed = true
					return
				}
				panic(p)
			}
		}()
		r.armed = st.Crash
		defer func() { r.armed = false }()
		if st.S == 1 {
			p := &tmproto.Proposal{Type: tmproto.ProposalType, Height: r.emb.h(st.H), Round: r.emb.r(st.R), PolRound: -1, BlockID: r.blockID(st.Bid), Timestamp: ts}
			defer func() { sig, rts = p.Signature, p.Timestamp }()
			signBytes = func() []byte { return tmtypes.ProposalSignBytes(chainID, p) }
			err = r.pv.SignProposal(chainID, p)
		} else {
			typ := tmproto.PrevoteType
			if st.S == 3 {
				typ = tmproto.PrecommitType
			}
			addr := r.pv.GetAddress()
			v := &tmproto.Vote{Type: typ, Height: r.emb.h(st.H), Round: r.emb.r(st.R), BlockID: r.blockID(st.Bid), Timestamp: ts, ValidatorAddress: addr, ValidatorIndex: 0}
			defer func() { sig, rts = v.Signature, v.Timestamp }()
			signBytes = func() []byte { return tmtypes.VoteSignBytes(chainID, v) }
			err = r.pv.SignVote(chainID, v)
		}
	}()
	switch {
	case crashed:
		ev["res"] = "crash"
		// a signature visible to the caller at the instant of the crash was released before it was durable
		ev["leaked"] = len(sig) > 0
		r.pv = nil
	case err != nil:
		ev["err"] = classify(err)
	default:
		ev["res"] = "ok"
		key := string(sig)
		if _, ok := r.sigTok[key]; !ok {
			r.sigTok[key] = len(r.sigTok) + 1
		}
		ev["sig"] = r.sigTok[key]
		ev["rts"] = tsOf(rts)
		pub, _ := r.pv.GetPubKey()
		ev["valid"] = pub.VerifySignature(signBytes(), sig)
	}
	ev["disk"] = r.readDisk()
	return ev
}

func (r *runner) reload() map[string]any {
	r.pv = rcrypto.LoadSFilePV(r.keyFile, r.stFile, nil)
	return map[string]any{"ev": "Reload", "disk": r.readDisk()}
}

// ExecAll runs every sequence on a fresh signer (new key and state files).
func ExecAll(seqs [][]Step, tmp string, w *bufio.Writer) (int, error) {
	enc := json.NewEncoder(w)
	n := 0
	var cur *runner
	verifhook.OnSignerPersisted = func() {
		if cur != nil && cur.armed {
			panic(crashSentinel{})
		}
	}
	defer func() { verifhook.OnSignerPersisted = nil }()
	for i, seq := range seqs {
		dir, err := os.MkdirTemp(tmp, "c20-")
		if err != nil {
			return n, err
		}
		r := &runner{dir: dir, sigTok: map[string]int{}, keyFile: filepath.Join(dir, "key.json"), stFile: filepath.Join(dir, "state.json"),
			emb: embeddings[i%len(embeddings)], bidMode: (i / len(embeddings)) % len(bidModes)}
		cur = r
		r.pv = rcrypto.GenSFilePV(r.keyFile, r.stFile)
		r.pv.SaveWith(nil)
		_ = enc.Encode(map[string]any{"ev": "Reset", "i": i, "disk": r.readDisk(), "embedding": r.emb.name, "blockids": bidModes[r.bidMode]})
		for _, st := range seq {
			var ev map[string]any
			if st.Ev == "Reload" || r.pv == nil {
				ev = r.reload()
				_ = enc.Encode(ev)
				n++
				if st.Ev == "Reload" {
					continue
				}
			}
			ev = r.sign(st)
			_ = enc.Encode(ev)
			n++
		}
		_ = os.RemoveAll(dir)
	}
	return n, w.Flush()
}

// Random generates request sequences that climb through heights/rounds/steps
// with repeats, regressions, conflicts, timestamp-only changes, reloads and crashes.
func Random(seed int64, n, length int, maxH int64) [][]Step {
	rng := rand.New(rand.NewSource(seed))
	var seqs [][]Step
	for i := 0; i < n; i++ {
		var seq []Step
		cur := Step{Ev: "Sign", H: 1, R: 0, S: 1, Bid: 1, Ts: 1}
		for j := 0; j < length; j++ {
			st := cur
			switch rng.Intn(12) {
			case 0: // exact repeat
			case 1: // timestamp only
				st.Ts = 1 + rng.Intn(5)
			case 2: // conflicting block id
				st.Bid = rng.Intn(4)
			case 3: // regress
				if rng.Intn(2) == 0 && st.H > 1 {
					st.H--
				} else if st.R > 0 {
					st.R--
				} else if st.S > 1 {
					st.S--
				}
			case 4:
				seq = append(seq, Step{Ev: "Reload"})
				continue
			case 5, 6, 7: // next step
				if st.S < 3 {
					st.S++
				} else {
					st.S = 1
					if rng.Intn(3) == 0 {
						st.R++
					} else {
						st.H++
						st.R = 0
					}
				}
				st.Bid, st.Ts = rng.Intn(4), 1+rng.Intn(5)
			case 8: // jump
				st.H += int64(rng.Intn(3))
				st.R = int32(rng.Intn(3))
				st.S = 1 + rng.Intn(3)
				st.Bid, st.Ts = rng.Intn(4), 1+rng.Intn(5)
			default: // arbitrary request near the current position
				st.H = cur.H - 1 + int64(rng.Intn(3))
				if st.H < 1 {
					st.H = 1
				}
				st.R = int32(rng.Intn(3))
				st.S = 1 + rng.Intn(3)
				st.Bid, st.Ts = rng.Intn(4), 1+rng.Intn(5)
			}
			if st.H > maxH {
				st.H = maxH
			}
			st.Crash = rng.Intn(8) == 0
			seq = append(seq, st)
			if !(st.H < cur.H || (st.H == cur.H && (st.R < cur.R || (st.R == cur.R && st.S < cur.S)))) {
				cur = st
				cur.Crash = false
			}
		}
		seqs = append(seqs, seq)
	}
	return seqs
}
