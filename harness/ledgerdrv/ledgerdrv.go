// Package ledgerdrv drives the real ledger.FinalityLedger with operation
// sequences and records one ndjson event per call (C18).
package ledgerdrv

import (
	"bufio"
	"encoding/json"
	"fmt"
	"math/rand"
	"os"

	"github.com/rigochain/rigo-go/ledger"
	"github.com/rigochain/rigo-go/types/xerrors"
)

// item is a ledger item with a one-byte payload.
type item struct {
	k ledger.LedgerKey
	v byte
}

func (it *item) Key() ledger.LedgerKey { return it.k }
func (it *item) Encode() ([]byte, xerrors.XError) {
	return append(append([]byte{}, it.k[:]...), it.v), nil
}
func (it *item) Decode(bz []byte) xerrors.XError {
	if len(bz) != 33 {
		return xerrors.NewOrdinary("bad item")
	}
	copy(it.k[:], bz[:32])
	it.v = bz[32]
	return nil
}

func key(i int) ledger.LedgerKey {
	var k ledger.LedgerKey
	for j := range k {
		k[j] = byte(0x10*i + j%7)
	}
	k[0] = byte(i)
	return k
}

// Op is one ledger call. Out is filled by Exec.
type Op struct {
	Op  string `json:"op"`
	K   int    `json:"k"`
	V   int    `json:"v"`
	Mut bool   `json:"mut,omitempty"` // Set*: mutate the object handed out by Get* in place and Set it again
	Out any    `json:"out"`
}

type runner struct {
	dir   string
	nkey  int
	l     *ledger.FinalityLedger[*item]
	extra *Op // a second observation of the same call (ReadAt through the view's Get instead of its Read)
}

func (r *runner) open() error {
	l, xerr := ledger.NewFinalityLedger[*item]("c18", r.dir, 16, func() *item { return &item{} })
	if xerr != nil {
		return xerr
	}
	r.l = l
	return nil
}

func val(it *item, xerr xerrors.XError) int {
	if xerr != nil || it == nil {
		return 0
	}
	return int(it.v)
}

func (r *runner) exec(op *Op) (err error) {
	defer func() {
		if p := recover(); p != nil {
			op.Out = fmt.Sprintf("PANIC: %v", p)
		}
	}()
	k := key(op.K)
	switch op.Op {
	case "SetFinality":
		it := &item{k: k, v: byte(op.V)}
		if op.Mut {
			if got, xerr := r.l.GetFinality(k); xerr == nil {
				got.v = byte(op.V)
				it = got
			}
		}
		_ = r.l.SetFinality(it)
		op.Out = 0
	case "GetFinality":
		op.Out = val(r.l.GetFinality(k))
	case "DelFinality":
		op.Out = val(r.l.DelFinality(k))
	case "CancelSetFinality":
		_ = r.l.CancelSetFinality(k)
		op.Out = 0
	case "CancelDelFinality":
		_ = r.l.CancelDelFinality(k)
		op.Out = 0
	case "Set":
		it := &item{k: k, v: byte(op.V)}
		if op.Mut {
			if got, xerr := r.l.Get(k); xerr == nil {
				got.v = byte(op.V)
				it = got
			}
		}
		_ = r.l.Set(it)
		op.Out = 0
	case "Get":
		op.Out = val(r.l.Get(k))
	case "Del":
		op.Out = val(r.l.Del(k))
	case "CancelSet":
		_ = r.l.CancelSet(k)
		op.Out = 0
	case "CancelDel":
		_ = r.l.CancelDel(k)
		op.Out = 0
	case "Read":
		op.Out = val(r.l.Read(k))
	case "IterateAll":
		out := make([]int, r.nkey)
		_ = r.l.IterateReadAllFinalityItems(func(it *item) xerrors.XError {
			for i := 1; i <= r.nkey; i++ {
				if key(i) == it.k {
					out[i-1] = int(it.v)
				}
			}
			return nil
		})
		op.Out = out
	case "Commit":
		_, ver, xerr := r.l.Commit()
		if xerr != nil {
			op.Out = -1
		} else {
			op.Out = int(ver)
		}
	case "ReadAt":
		iml, xerr := r.l.ImmutableLedgerAt(int64(op.V), 0)
		if xerr != nil {
			op.Out = -1
		} else {
			op.Out = val(iml.Read(k))
			// the same historical read through the view's cached Get (the path block execution uses), twice
			g1 := val(iml.Get(k))
			g2 := val(iml.Get(k))
			if g2 != g1 {
				g1 = g2
			}
			r.extra = &Op{Op: "ReadAt", K: op.K, V: op.V, Out: g1}
		}
	case "Reopen":
		ver := r.l.Version()
		if xerr := r.l.Close(); xerr != nil {
			return xerr
		}
		if err := r.open(); err != nil {
			return err
		}
		if r.l.Version() != ver {
			op.Out = -1
		} else {
			op.Out = int(ver)
		}
	default:
		return fmt.Errorf("unknown op %q", op.Op)
	}
	return nil
}

// ExecAll runs every sequence on a fresh ledger and appends the recorded
// events (preceded by a Reset event) to w.
func ExecAll(seqs [][]Op, nkey int, tmp string, w *bufio.Writer) (int, error) {
	n := 0
	enc := json.NewEncoder(w)
	for i, seq := range seqs {
		dir, err := os.MkdirTemp(tmp, "c18-")
		if err != nil {
			return n, err
		}
		r := &runner{dir: dir, nkey: nkey}
		if err := r.open(); err != nil {
			return n, err
		}
		_ = enc.Encode(map[string]any{"op": "Reset", "k": 0, "v": 0, "out": i})
		for j := range seq {
			if err := r.exec(&seq[j]); err != nil {
				return n, err
			}
			ev := map[string]any{"op": seq[j].Op, "k": seq[j].K, "v": seq[j].V, "out": seq[j].Out}
			_ = enc.Encode(ev)
			n++
			if r.extra != nil {
				_ = enc.Encode(map[string]any{"op": r.extra.Op, "k": r.extra.K, "v": r.extra.V, "out": r.extra.Out, "via": "get"})
				r.extra = nil
				n++
			}
		}
		_ = r.l.Close()
		_ = os.RemoveAll(dir)
	}
	return n, w.Flush()
}

var opNames = []string{"SetFinality", "SetFinality", "SetFinality", "GetFinality", "GetFinality", "DelFinality", "DelFinality",
	"CancelSetFinality", "CancelDelFinality", "Set", "Set", "Get", "Get", "Del", "CancelSet", "CancelDel",
	"Read", "IterateAll", "Commit", "Commit", "ReadAt", "ReadAt", "Reopen"}

// Random generates n operation sequences of the given length.
func Random(seed int64, n, length, nkey, nval int) [][]Op {
	rng := rand.New(rand.NewSource(seed))
	var seqs [][]Op
	for i := 0; i < n; i++ {
		var seq []Op
		commits := 0
		for j := 0; j < length; j++ {
			op := Op{Op: opNames[rng.Intn(len(opNames))], K: 1 + rng.Intn(nkey)}
			// every second sequence has no Cancel* call: C18 leaves results after a cancel open
			for i%2 == 0 && len(op.Op) > 6 && op.Op[:6] == "Cancel" {
				op.Op = opNames[rng.Intn(len(opNames))]
			}
			switch op.Op {
			case "SetFinality", "Set":
				op.V = 1 + rng.Intn(nval)
				op.Mut = rng.Intn(3) == 0
			case "ReadAt":
				op.V = 1 + rng.Intn(commits+2) // includes one beyond the latest
				if rng.Intn(10) == 0 {
					op.V = 0
				}
			case "Commit":
				commits++
				op.K = 0
			case "IterateAll", "Reopen":
				op.K = 0
			}
			seq = append(seq, op)
		}
		seqs = append(seqs, seq)
	}
	return seqs
}

// Enumerate returns EVERY sequence of exactly `depth` operations on key 1 drawn from one overlay's operations
// (write value 2, delete, cancel-set, cancel-delete, read), for both overlays, from both starting points (key 1 absent /
// committed with value 1), followed by an observation tail: reads through both overlays, a commit, reads of the
// committed tree and of both versions.
func Enumerate(depth int) [][]Op {
	cons := []Op{{Op: "SetFinality", K: 1, V: 2}, {Op: "DelFinality", K: 1}, {Op: "CancelSetFinality", K: 1}, {Op: "CancelDelFinality", K: 1}, {Op: "GetFinality", K: 1}}
	mem := []Op{{Op: "Set", K: 1, V: 2}, {Op: "Del", K: 1}, {Op: "CancelSet", K: 1}, {Op: "CancelDel", K: 1}, {Op: "Get", K: 1}}
	tail := []Op{{Op: "GetFinality", K: 1}, {Op: "Get", K: 1}, {Op: "Read", K: 1}, {Op: "Commit"}, {Op: "GetFinality", K: 1}, {Op: "Get", K: 1},
		{Op: "Read", K: 1}, {Op: "IterateAll"}, {Op: "ReadAt", K: 1, V: 1}, {Op: "ReadAt", K: 1, V: 2}, {Op: "Reopen"}, {Op: "Read", K: 1}, {Op: "GetFinality", K: 1}}
	var out [][]Op
	for _, alphabet := range [][]Op{cons, mem} {
		for _, present := range []bool{false, true} {
			idx := make([]int, depth)
			for {
				var seq []Op
				if present {
					seq = append(seq, Op{Op: "SetFinality", K: 1, V: 1}, Op{Op: "Commit"})
				} else {
					seq = append(seq, Op{Op: "SetFinality", K: 2, V: 1}, Op{Op: "Commit"})
				}
				for _, i := range idx {
					seq = append(seq, alphabet[i])
				}
				seq = append(seq, tail...)
				out = append(out, seq)
				// next index vector
				j := depth - 1
				for j >= 0 {
					idx[j]++
					if idx[j] < len(alphabet) {
						break
					}
					idx[j] = 0
					j--
				}
				if j < 0 {
					break
				}
			}
		}
	}
	return out
}
