// Package appdrv drives the real node.RigoApp directly at the ABCI boundary
// (no Tendermint process): it plays the consensus engine, records every call
// with its response and a projection of the application state, and provides
// restart / crash by copying the data directory.
package appdrv

import (
	"encoding/hex"
	"fmt"
	"os"
	"os/exec"
	"path/filepath"
	"time"

	cfg "github.com/rigochain/rigo-go/cmd/config"
	rctypes "github.com/rigochain/rigo-go/ctrlers/types"
	"github.com/rigochain/rigo-go/genesis"
	"github.com/rigochain/rigo-go/node"
	abcitypes "github.com/tendermint/tendermint/abci/types"
	cryptoenc "github.com/tendermint/tendermint/crypto/encoding"
	"github.com/tendermint/tendermint/crypto/secp256k1"
	tmjson "github.com/tendermint/tendermint/libs/json"
	"github.com/tendermint/tendermint/libs/log"
	tmproto "github.com/tendermint/tendermint/proto/tendermint/types"
)

// BaseTime is the synthetic time of block 0; block h has time BaseTime + h*3s.
var BaseTime = time.Date(2024, 1, 1, 0, 0, 0, 0, time.UTC)

// App is one running instance of the application on a data directory.
type App struct {
	Dir  string
	Core *node.RigoApp
	Conf *cfg.Config
}

// OpenApp creates an application instance on root (created if missing) and
// performs the Info handshake call, as Tendermint does at start.
func OpenApp(root string) (app *App, info abcitypes.ResponseInfo, err error) {
	defer func() {
		if p := recover(); p != nil {
			err = fmt.Errorf("panic while opening application: %v", p)
		}
	}()
	c := cfg.DefaultConfig()
	c.SetRoot(root)
	if err = os.MkdirAll(c.DBDir(), 0o755); err != nil {
		return nil, info, err
	}
	core := node.NewRigoApp(c, log.NewNopLogger())
	_ = core.Start()
	info = core.Info(abcitypes.RequestInfo{})
	return &App{Dir: root, Core: core, Conf: c}, info, nil
}

// CopyDir copies a data directory (process death leaves exactly the files on disk).
func CopyDir(src, dst string) error {
	if err := os.MkdirAll(filepath.Dir(dst), 0o755); err != nil {
		return err
	}
	out, err := exec.Command("cp", "-r", src, dst).CombinedOutput()
	if err != nil {
		return fmt.Errorf("cp -r %s %s: %v: %s", src, dst, err, out)
	}
	// goleveldb lock files of the source instance must not block the copy's open
	_ = filepath.Walk(dst, func(p string, fi os.FileInfo, err error) error {
		if err == nil && !fi.IsDir() && fi.Name() == "LOCK" {
			_ = os.Remove(p)
		}
		return nil
	})
	return nil
}

// GenesisSpec is the JSON-able description of a chain genesis.
type GenesisSpec struct {
	ChainID    string            `json:"chain"`
	Seed       int64             `json:"seed"`     // key derivation
	Balances   []string          `json:"balances"` // decimal, one per account a1..aN
	Validators []GenVal          `json:"validators"`
	Gov        map[string]string `json:"gov"` // governance parameters, decimal strings
	// unit in which voting powers are rendered (0 / 1: one power = 10^18; see PowerUnit)
	PowerUnit int64 `json:"power_unit,omitempty"`
}

type GenVal struct {
	Acct  int   `json:"acct"` // 1-based account index
	Power int64 `json:"power"`
}

// DefaultGov returns small governance parameters so that every rule fires within tens of blocks.
func DefaultGov() map[string]string {
	return map[string]string{
		"version": "1", "maxValidatorCnt": "4", "minValidatorStake": "2000000000000000000", "minDelegatorStake": "0",
		"rewardPerPower": "2000000000", "lazyRewardBlocks": "3", "lazyApplyingBlocks": "2", "gasPrice": "10",
		"minTrxGas": "10", "maxTrxGas": "18446744073709551615", "maxBlockGas": "18446744073709551615",
		"minVotingPeriodBlocks": "2", "maxVotingPeriodBlocks": "6", "minSelfStakeRatio": "30",
		"maxUpdatableStakeRatio": "60", "maxIndividualStakeRatio": "70", "slashRatio": "50",
		"signedBlocksWindow": "4", "minSignedBlocks": "2",
	}
}

func govJSON(g map[string]string) []byte {
	// tmjson wants 64-bit integers as JSON strings; all fields are strings already
	m := map[string]string{}
	for k, v := range g {
		m[k] = v
	}
	bz, _ := tmjson.Marshal(m)
	return bz
}

// InitChain sends the genesis to the application.
func (a *App) InitChain(g *GenesisSpec, kr *Keyring) (resp abcitypes.ResponseInitChain, err error) {
	defer func() {
		if p := recover(); p != nil {
			err = fmt.Errorf("panic in InitChain: %v", p)
		}
	}()
	var holders []*genesis.GenesisAssetHolder
	for i, b := range g.Balances {
		holders = append(holders, &genesis.GenesisAssetHolder{Address: kr.Addr(i + 1), Balance: mustU256(b)})
	}
	gp := &rctypes.GovParams{}
	if err := tmjson.Unmarshal(govJSON(g.Gov), gp); err != nil {
		return resp, err
	}
	appState, err := tmjson.Marshal(genesis.GenesisAppState{AssetHolders: holders, GovParams: gp})
	if err != nil {
		return resp, err
	}
	var vals []abcitypes.ValidatorUpdate
	for _, v := range g.Validators {
		pk, err := cryptoenc.PubKeyToProto(secp256k1.PubKey(kr.Wallet(v.Acct).GetPubKey()))
		if err != nil {
			return resp, err
		}
		vals = append(vals, abcitypes.ValidatorUpdate{PubKey: pk, Power: v.Power})
	}
	resp = a.Core.InitChain(abcitypes.RequestInitChain{
		Time: BaseTime, ChainId: g.ChainID, Validators: vals, AppStateBytes: appState, InitialHeight: 1,
	})
	return resp, nil
}

// BlockHeader describes the consensus inputs of BeginBlock.
type BlockHeader struct {
	H        int64      `json:"h"`
	Proposer string     `json:"proposer"` // hex address or "" (no proposer)
	Votes    []VoteInfo `json:"votes"`
	Evidence []Evidence `json:"evidence"`
}

type VoteInfo struct {
	Addr   string `json:"addr"` // hex
	Power  int64  `json:"power"`
	Signed bool   `json:"signed"`
}

type Evidence struct {
	Addr   string `json:"addr"`
	Power  int64  `json:"power"`
	Height int64  `json:"height"`
}

func unhex(s string) []byte {
	b, _ := hex.DecodeString(s)
	return b
}

// BlockTime is the synthetic header time of height h.
func BlockTime(h int64) time.Time { return BaseTime.Add(time.Duration(h) * 3 * time.Second) }

func (hd *BlockHeader) Request() abcitypes.RequestBeginBlock {
	req := abcitypes.RequestBeginBlock{
		Hash:   []byte(fmt.Sprintf("blockhash-%d", hd.H)),
		Header: tmproto.Header{ChainID: "", Height: hd.H, Time: BlockTime(hd.H)},
	}
	if hd.Proposer != "" {
		req.Header.ProposerAddress = unhex(hd.Proposer)
	}
	for _, v := range hd.Votes {
		req.LastCommitInfo.Votes = append(req.LastCommitInfo.Votes, abcitypes.VoteInfo{
			Validator: abcitypes.Validator{Address: unhex(v.Addr), Power: v.Power}, SignedLastBlock: v.Signed})
	}
	for _, e := range hd.Evidence {
		req.ByzantineValidators = append(req.ByzantineValidators, abcitypes.Evidence{
			Type: abcitypes.EvidenceType_DUPLICATE_VOTE, Validator: abcitypes.Validator{Address: unhex(e.Addr), Power: e.Power},
			Height: e.Height, Time: BlockTime(e.Height), TotalVotingPower: 0})
	}
	return req
}

// Call runs f and converts a panic into a string (empty = no panic).
func Call(f func()) (panicMsg string) {
	defer func() {
		if p := recover(); p != nil {
			panicMsg = fmt.Sprintf("%v", p)
			if len(panicMsg) > 300 {
				panicMsg = panicMsg[:300]
			}
			if panicMsg == "" {
				panicMsg = "panic"
			}
		}
	}()
	f()
	return ""
}
