package appdrv

import (
	"bytes"
	"encoding/json"
	"fmt"
	"math"
	"math/big"
	"math/rand"
	"sort"
	"time"

	ethcrypto "github.com/ethereum/go-ethereum/crypto"
	"github.com/holiman/uint256"
	rctypes "github.com/rigochain/rigo-go/ctrlers/types"
	"github.com/rigochain/rigo-go/libs/web3"
	"github.com/rigochain/rigo-go/types"
)

// View is the typed form of a projection, used by the generators to make
// state-aware choices.
type View struct {
	H       int  `json:"h"`
	InBlock bool `json:"inblock"`
	Accts   map[string]struct {
		Bal   []int `json:"bal"`
		Nonce int   `json:"nonce"`
		Code  int   `json:"code"`
	} `json:"accts"`
	Delegs map[string]struct {
		Self   int `json:"self"`
		Total  int `json:"total"`
		Stakes []struct {
			ID   string `json:"id"`
			From string `json:"from"`
			To   string `json:"to"`
			Pow  int    `json:"pow"`
		} `json:"stakes"`
	} `json:"delegs"`
	Rewards map[string]struct {
		Cum []int `json:"cum"`
	} `json:"rewards"`
	Props map[string]struct {
		Start  int `json:"start"`
		End    int `json:"end"`
		Voters map[string]struct {
			Pow    int `json:"pow"`
			Choice int `json:"choice"`
		} `json:"voters"`
		Opts []struct{} `json:"opts"`
	} `json:"props"`
	Gov map[string]any `json:"gov"`
	Vol struct {
		LastVals []struct {
			V   string `json:"v"`
			Pow int    `json:"pow"`
		} `json:"lastVals"`
	} `json:"vol"`
}

func ToView(p J) *View {
	bz, _ := json.Marshal(p)
	v := &View{}
	_ = json.Unmarshal(bz, v)
	return v
}

// FromLimbs converts little-endian base-1000 limbs back to a big integer.
func FromLimbs(l []int) *big.Int {
	x := new(big.Int)
	for i := len(l) - 1; i >= 0; i-- {
		x.Mul(x, thousand)
		x.Add(x, big.NewInt(int64(l[i])))
	}
	return x
}

func govLimbs(g map[string]any, k string) *big.Int {
	arr, _ := g[k].([]any)
	var l []int
	for _, x := range arr {
		f, _ := x.(float64)
		l = append(l, int(f))
	}
	return FromLimbs(l)
}

func govInt(g map[string]any, k string) int64 {
	f, _ := g[k].(float64)
	return int64(f)
}

// Builder builds and signs transactions with the repository's own helpers.
type Builder struct {
	KR      *Keyring
	ChainID string
}

var E18 = new(big.Int).Exp(big.NewInt(10), big.NewInt(18), nil)

func u256(b *big.Int) *uint256.Int {
	v, overflow := uint256.FromBig(b)
	if overflow {
		v = new(uint256.Int).SetAllOne()
	}
	return v
}

// Sign signs tx with account acct for chain and returns the wire encoding.  The creation time is a fixed function of
// sender and nonce (reproducible bytes); SignAt signs with a given creation time.
func (b *Builder) Sign(tx *rctypes.Trx, acct int, chain string) []byte {
	return b.SignAt(tx, acct, chain, BaseTime.UnixNano()+int64(tx.Nonce)*1000+int64(acct))
}

func (b *Builder) SignAt(tx *rctypes.Trx, acct int, chain string, t int64) []byte {
	tx.Time = t
	if _, _, err := b.KR.Wallet(acct).SignTrxRLP(tx, chain); err != nil {
		panic(err)
	}
	bz, xerr := tx.Encode()
	if xerr != nil {
		panic(xerr)
	}
	return bz
}

// Encode re-encodes a (possibly mutated) transaction without re-signing.
func Encode(tx *rctypes.Trx) []byte {
	bz, xerr := tx.Encode()
	if xerr != nil {
		panic(xerr)
	}
	return bz
}

// Profile weights the random generator.
type Profile struct {
	Blocks      int
	MaxTxs      int
	PAbsent     float64
	PEvidence   float64
	PNoProposer float64
	PInvalid    float64 // probability that a generated tx is deliberately invalid
	PReplay     float64 // probability of re-submitting an earlier tx
	W           map[string]int
	Boundary    bool // use 256-bit boundary amounts
	// BusyFirstBlock allows transactions in block 1 (changes to genesis validators there hit known finding D8)
	BusyFirstBlock bool
	PCheck         float64 // probability that a generated transaction is only sent to CheckTx (mempool traffic that is never delivered)
	Queries        int     // up to this many Query calls after every consensus call
	PRestart       float64 // probability of a process restart after a commit
	Contracts      bool
}

func DefaultProfile() Profile {
	return Profile{Blocks: 25, MaxTxs: 5, PAbsent: 0.12, PEvidence: 0.08, PNoProposer: 0.05, PInvalid: 0.25, PReplay: 0.08,
		W: map[string]int{"transfer": 6, "staking": 6, "unstaking": 4, "withdraw": 3, "proposal": 2, "voting": 4, "setdoc": 1, "contract": 0}}
}

// Gen produces scenario ops online from the observed state of a replica.
type Gen struct {
	Rng     *rand.Rand
	B       *Builder
	KR      *Keyring
	G       *GenesisSpec
	Cons    *Consensus
	P       Profile
	NAcct   int
	pool    []Op  // every tx ever built (replay pool)
	swapTo  int   // delegatee of the most recently generated release (0: none)
	swapPow int64 // and its power
	swapNow bool  // the next transaction is the compensating delegation (same block: count and sum of the set unchanged)
	// option documents offered by proposals
	OptMenu []string
	Progs   func(g *Gen, v *View, from int) *Op // contract tx generator (set by evm package code)
	// contracts deployed so far by this generator (address, template name)
	Contracts []deployed
}

type deployed struct {
	addr []byte
	tmpl string
}

var tmplNames = []string{"counter", "forwarder", "store_log", "reverter", "nested", "touch_and_revert", "suicide", "loop", "invalid", "badjump", "balances", "sink", "context", "creator", "restore", "triple_counter", "store_context", "suicide_caller", "prefund_creator", "create_then_revert"}

// contractTx builds a random deployment or call.
func (g *Gen) contractTx(v *View, from int, nonce uint64, price *uint256.Int, bal *big.Int) (*rctypes.Trx, string) {
	rng := g.Rng
	gasMenu := []uint64{21000, 25000, 53000, 60000, 120000, 300000, 900000}
	gas := gasMenu[rng.Intn(len(gasMenu))]
	anyAddr := func() []byte {
		if len(g.Contracts) > 0 && rng.Intn(2) == 0 {
			return g.Contracts[rng.Intn(len(g.Contracts))].addr
		}
		return g.KR.Addr(1 + rng.Intn(g.NAcct+3))
	}
	value := big.NewInt(0)
	switch rng.Intn(4) {
	case 0:
		value = big.NewInt(int64(rng.Intn(100000)))
	case 1:
		value = new(big.Int).Mul(big.NewInt(int64(1+rng.Intn(5))), E18)
	}
	if g.P.Boundary && rng.Intn(4) == 0 {
		value = g.boundaryAmount(bal)
	}
	if len(g.Contracts) == 0 || rng.Intn(4) == 0 {
		name := tmplNames[rng.Intn(len(tmplNames))]
		var runtime []byte
		if name == "creator" {
			runtime = CreatorRuntime()
		} else if name == "prefund_creator" {
			runtime = PrefundCreatorRuntime()
		} else if name == "create_then_revert" {
			runtime = CreateThenFailRuntime("REVERT")
		} else {
			runtime = Asm(Programs[name], map[string][]byte{"callee": anyAddr(), "fresh": g.KR.Addr(g.NAcct + 1 + rng.Intn(4))})
		}
		var a [20]byte
		copy(a[:], g.KR.Addr(from))
		addr := ethcrypto.CreateAddress(a, nonce)
		g.Contracts = append(g.Contracts, deployed{addr[:], name})
		if gas < 120000 {
			gas = 300000
		}
		if name == "creator" || name == "prefund_creator" || name == "create_then_revert" {
			gas = 900000
		}
		return web3.NewTrxContract(g.KR.Addr(from), types.ZeroAddress(), nonce, gas, price, u256(value), Deployer(runtime, int64(rng.Intn(3)))), "contract:deploy:" + name
	}
	c := g.Contracts[rng.Intn(len(g.Contracts))]
	var data []byte
	switch rng.Intn(4) {
	case 0:
	case 1:
		data = word(anyAddr())
	case 2:
		data = append(word([]byte{byte(rng.Intn(256))}), word([]byte{byte(rng.Intn(4))})...)
	case 3:
		data = randBytes(rng, rng.Intn(70))
	}
	if c.tmpl == "prefund_creator" && rng.Intn(3) > 0 {
		// the address this contract's next CREATE will produce (its nonce as the native ledger shows it)
		n := uint64(1)
		if a, ok := v.Accts[g.KR.Name(c.addr)]; ok && a.Nonce > 0 {
			n = uint64(a.Nonce)
		}
		data = word(childAddr(c.addr, n))
		gas = 900000
	}
	if rng.Intn(6) == 0 {
		// a plain transfer to a contract address (executed by the EVM as well)
		return web3.NewTrxTransfer(g.KR.Addr(from), c.addr, nonce, gas, price, u256(value)), "transfer:tocontract:" + c.tmpl
	}
	return web3.NewTrxContract(g.KR.Addr(from), c.addr, nonce, gas, price, u256(value), data), "contract:call:" + c.tmpl
}

func NewGen(seed int64, g *GenesisSpec, naccts int, p Profile) *Gen {
	kr := NewKeyring(g.Seed, naccts)
	return &Gen{Rng: rand.New(rand.NewSource(seed)), B: &Builder{KR: kr, ChainID: g.ChainID}, KR: kr, G: g,
		Cons: NewConsensus(g, kr), P: p, NAcct: naccts,
		OptMenu: []string{
			`{"gasPrice":"20"}`, `{"minTrxGas":"15"}`, `{"gasPrice":"5","minTrxGas":"30"}`, `{"lazyRewardBlocks":"5"}`,
			`{"maxValidatorCnt":"3"}`, `{"maxValidatorCnt":"6","minValidatorStake":"3000000000000000000"}`, `{"slashRatio":"34"}`,
			`{"rewardPerPower":"3000000000"}`, `{"signedBlocksWindow":"3","minSignedBlocks":"1"}`, `{"lazyApplyingBlocks":"1"}`,
			`{"minSelfStakeRatio":"10"}`, `{"maxVotingPeriodBlocks":"4","minVotingPeriodBlocks":"1"}`,
			`{"lazyRewardBlocks":"1"}`, `{"lazyRewardBlocks":"9"}`, `{"gasPrice":"0"}`, `{"minValidatorStake":"2500000000000000000"}`, `{"maxValidatorCnt":"2"}`, `{"minValidatorStake":"9000000000000000000"}`,
		}}
}

func (g *Gen) acctName(i int) string { return fmt.Sprintf("a%d", i) }

func (g *Gen) pick(ws map[string]int) string {
	keys := make([]string, 0, len(ws))
	total := 0
	for k, w := range ws {
		if w > 0 {
			keys = append(keys, k)
			total += w
		}
	}
	sort.Strings(keys)
	x := g.Rng.Intn(total)
	for _, k := range keys {
		x -= ws[k]
		if x < 0 {
			return k
		}
	}
	return keys[0]
}

var two = big.NewInt(2)

func pow2(n uint) *big.Int { return new(big.Int).Lsh(big.NewInt(1), n) }

// boundaryAmount returns an amount from the 256-bit boundary pool.
func (g *Gen) boundaryAmount(bal *big.Int) *big.Int {
	m1 := func(x *big.Int) *big.Int { return new(big.Int).Sub(x, big.NewInt(1)) }
	pool := []*big.Int{big.NewInt(0), big.NewInt(1), m1(E18), new(big.Int).Set(E18), m1(pow2(255)), pow2(255), m1(pow2(256)),
		new(big.Int).Mul(pow2(64), E18), new(big.Int).Mul(new(big.Int).Add(pow2(64), big.NewInt(1)), E18),
		new(big.Int).Mul(pow2(63), E18), new(big.Int).Set(bal), new(big.Int).Add(bal, big.NewInt(1)), m1(pow2(128))}
	return pool[g.Rng.Intn(len(pool))]
}

// NextTx builds one transaction given the current consensus view; nil if nothing sensible.
func (g *Gen) NextTx(v *View) *Op {
	if len(g.pool) > 0 && g.Rng.Float64() < g.P.PReplay {
		op := g.pool[g.Rng.Intn(len(g.pool))]
		op.Tag = "replay:" + op.Tag
		return &op
	}
	ws := g.P.W
	if ws["voting"] > 0 {
		// campaign: while a proposal's voting window is open, votes are four times as likely (so that proposals are
		// adopted, lose their majority again, and parameter changes really happen in random histories)
		for _, p := range v.Props {
			if int64(p.Start) <= int64(v.H)+1 && int64(v.H) <= int64(p.End) {
				ws = map[string]int{}
				for k, w := range g.P.W {
					ws[k] = w
				}
				ws["voting"] *= 4
				break
			}
		}
	}
	kind := g.pick(ws)
	price := u256(govLimbs(v.Gov, "gasPrice"))
	minGas := govLimbs(v.Gov, "minTrxGas").Uint64()
	gas := minGas + uint64(g.Rng.Intn(5))
	from := 1 + g.Rng.Intn(g.NAcct)
	invalid := ""
	if g.Rng.Float64() < g.P.PInvalid {
		invalid = []string{"nonce+", "nonce-", "gas", "price", "funds", "sig", "chain", "kind", "addrlen"}[g.Rng.Intn(9)]
	}
	redistribute := false
	if g.swapNow && g.swapTo > 0 {
		// the power released by the previous transaction is bonded again at once, by whoever can afford it
		g.swapNow = false
		need := new(big.Int).Add(new(big.Int).Mul(big.NewInt(g.swapPow), E18), new(big.Int).Mul(price.ToBig(), new(big.Int).SetUint64(gas)))
		off := g.Rng.Intn(g.NAcct)
		for i := 0; i < g.NAcct; i++ {
			c := 1 + (off+i)%g.NAcct
			if FromLimbs(v.Accts[g.acctName(c)].Bal).Cmp(need) >= 0 {
				from, kind, invalid, redistribute = c, "staking", "", true
				break
			}
		}
	}
	fromName := g.acctName(from)
	acct := v.Accts[fromName]
	bal := FromLimbs(acct.Bal)
	nonce := uint64(acct.Nonce)
	fee := new(big.Int).Mul(price.ToBig(), new(big.Int).SetUint64(gas))
	spendable := new(big.Int).Sub(bal, fee)
	if spendable.Sign() < 0 {
		spendable = big.NewInt(0)
	}
	var tx *rctypes.Trx
	tag := kind
	zero := uint256.NewInt(0)
	switch kind {
	case "transfer":
		to := 1 + g.Rng.Intn(g.NAcct+1) // may be an account that does not exist yet
		toAddr := g.KR.Addr(to)
		if g.Rng.Intn(25) == 0 {
			toAddr = types.ZeroAddress()
		}
		amt := new(big.Int).Rand(g.Rng, new(big.Int).Add(spendable, big.NewInt(1)))
		switch g.Rng.Intn(6) {
		case 0:
			amt = new(big.Int).Set(spendable)
		case 1:
			amt = big.NewInt(int64(g.Rng.Intn(1000)))
		}
		if g.P.Boundary && g.Rng.Intn(3) == 0 {
			amt = g.boundaryAmount(bal)
		}
		if invalid == "funds" {
			amt = new(big.Int).Add(spendable, big.NewInt(1))
		}
		tx = web3.NewTrxTransfer(g.KR.Addr(from), toAddr, nonce, gas, price, u256(amt))
	case "staking":
		to := from
		var names []string
		for n := range v.Delegs {
			names = append(names, n)
		}
		sort.Strings(names)
		if len(names) > 0 && g.Rng.Intn(3) > 0 {
			fmt.Sscanf(names[g.Rng.Intn(len(names))], "a%d", &to)
		}
		k := int64(1 + g.Rng.Intn(12))
		if g.G.Gov["minValidatorStake"] == "1000000000000000000" {
			k = int64(1 + g.Rng.Intn(3)) // the family of tiny validators: stakes of power 1..3
		}
		if g.swapTo > 0 && (redistribute || g.Rng.Intn(3) == 0) {
			// replace a stake that was released a moment ago by one of the same power, on the same delegatee or on
			// another one (the number of validators and the sum of their powers stay what they were)
			k = g.swapPow
			var others []int
			for _, n := range names {
				o := 0
				fmt.Sscanf(n, "a%d", &o)
				if o > 0 && o != g.swapTo {
					others = append(others, o)
				}
			}
			if len(others) > 0 && g.Rng.Intn(2) == 0 {
				to = others[g.Rng.Intn(len(others))]
				tag = "staking:redistribute"
			} else {
				to = g.swapTo
			}
			g.swapTo = 0
		}
		amt := new(big.Int).Mul(big.NewInt(k), E18)
		if g.P.Boundary && g.Rng.Intn(3) == 0 {
			amt = g.boundaryAmount(bal)
		}
		if invalid == "kind" {
			amt = new(big.Int).Add(amt, big.NewInt(int64(1+g.Rng.Intn(1000)))) // not a multiple of 10^18
			tag = "staking:notmultiple"
		}
		if invalid == "funds" {
			amt = new(big.Int).Mul(new(big.Int).Add(new(big.Int).Div(spendable, E18), big.NewInt(1)), E18)
		}
		tx = web3.NewTrxStaking(g.KR.Addr(from), g.KR.Addr(to), nonce, gas, price, u256(amt))
	case "unstaking":
		type st struct {
			id, from, to string
			pow          int
		}
		var all []st
		for dn, d := range v.Delegs {
			for _, s := range d.Stakes {
				all = append(all, st{s.ID, s.From, dn, s.Pow})
			}
		}
		if len(all) == 0 {
			return nil
		}
		sort.Slice(all, func(i, j int) bool { return all[i].id+all[i].to < all[j].id+all[j].to })
		s := all[g.Rng.Intn(len(all))]
		owner := 0
		fmt.Sscanf(s.from, "a%d", &owner)
		if invalid == "kind" || owner == 0 {
			tag = "unstaking:notowner"
		} else {
			from = owner
			fromName = s.from
			nonce = uint64(v.Accts[fromName].Nonce)
		}
		toIdx := 0
		fmt.Sscanf(s.to, "a%d", &toIdx)
		if toIdx == 0 {
			return nil
		}
		if tag == "unstaking" && s.pow > 0 {
			g.swapTo, g.swapPow = toIdx, int64(s.pow)
			g.swapNow = g.Rng.Intn(2) == 0
		}
		tx = web3.NewTrxUnstaking(g.KR.Addr(from), g.KR.Addr(toIdx), nonce, gas, price, g.KR.HashOf(s.id))
	case "withdraw":
		var names []string
		for n, r := range v.Rewards {
			if len(r.Cum) > 0 {
				names = append(names, n)
			}
		}
		sort.Strings(names)
		if len(names) > 0 && g.Rng.Intn(5) > 0 {
			n := names[g.Rng.Intn(len(names))]
			idx := 0
			fmt.Sscanf(n, "a%d", &idx)
			if idx > 0 {
				from, fromName = idx, n
				nonce = uint64(v.Accts[fromName].Nonce)
			}
		}
		cum := FromLimbs(v.Rewards[fromName].Cum)
		req := new(big.Int).Rand(g.Rng, new(big.Int).Add(cum, big.NewInt(1)))
		switch g.Rng.Intn(5) {
		case 0:
			req = new(big.Int).Set(cum)
		case 1:
			req = new(big.Int).Add(cum, big.NewInt(1))
			tag = "withdraw:excess"
		case 2:
			req = big.NewInt(0)
		}
		tx = web3.NewTrxWithdraw(g.KR.Addr(from), g.KR.Addr(from), nonce, gas, price, u256(req))
		if invalid == "kind" {
			tx.Amount = uint256.NewInt(1)
			tag = "withdraw:amount"
		}
	case "proposal":
		if len(v.Vol.LastVals) > 0 && g.Rng.Intn(6) > 0 {
			n := v.Vol.LastVals[g.Rng.Intn(len(v.Vol.LastVals))].V
			idx := 0
			fmt.Sscanf(n, "a%d", &idx)
			if idx > 0 {
				from, fromName = idx, n
				nonce = uint64(v.Accts[fromName].Nonce)
			}
		}
		h := int64(v.H)
		start := h + 1 + int64(g.Rng.Intn(3))
		minP, maxP := govInt(v.Gov, "minVotingPeriodBlocks"), govInt(v.Gov, "maxVotingPeriodBlocks")
		period := minP + int64(g.Rng.Intn(int(maxP-minP+1)))
		apply := start + period + govInt(v.Gov, "lazyApplyingBlocks") + int64(g.Rng.Intn(3))
		if invalid == "kind" {
			switch g.Rng.Intn(4) {
			case 0:
				start = h - int64(g.Rng.Intn(2))
				tag = "proposal:start"
			case 1:
				period = maxP + 1
				tag = "proposal:period"
			case 2:
				apply = start + period + govInt(v.Gov, "lazyApplyingBlocks") - 1
				tag = "proposal:apply"
			case 3:
				period = minP - 1
				tag = "proposal:period"
			}
		}
		nopt := 1 + g.Rng.Intn(2)
		var opts [][]byte
		for i := 0; i < nopt; i++ {
			opts = append(opts, []byte(g.OptMenu[g.Rng.Intn(len(g.OptMenu))]))
		}
		if g.Rng.Intn(15) == 0 {
			opts[0] = []byte(`{"gasPrice":`)
			tag = "proposal:baddoc"
		}
		tx = web3.NewTrxProposal(g.KR.Addr(from), types.ZeroAddress(), nonce, gas, price, "msg", start, period, apply, 0x0101, opts...)
	case "voting":
		var pids []string
		for id := range v.Props {
			pids = append(pids, id)
		}
		if len(pids) == 0 {
			return nil
		}
		sort.Strings(pids)
		pid := pids[g.Rng.Intn(len(pids))]
		p := v.Props[pid]
		var voters []string
		for n := range p.Voters {
			voters = append(voters, n)
		}
		sort.Strings(voters)
		if len(voters) > 0 && g.Rng.Intn(8) > 0 {
			n := voters[g.Rng.Intn(len(voters))]
			idx := 0
			fmt.Sscanf(n, "a%d", &idx)
			if idx > 0 {
				from, fromName = idx, n
				nonce = uint64(v.Accts[fromName].Nonce)
			}
		}
		choice := int32(g.Rng.Intn(len(p.Opts) + 1))
		if g.Rng.Intn(2) == 0 {
			choice = 0
		}
		if int(choice) == len(p.Opts) {
			if g.Rng.Intn(3) == 0 {
				tag = "voting:badchoice"
				if g.Rng.Intn(2) == 0 {
					choice = -1
				}
			} else {
				choice = 0
			}
		}
		tx = web3.NewTrxVoting(g.KR.Addr(from), types.ZeroAddress(), nonce, gas, price, g.KR.HashOf(pid), choice)
	case "setdoc":
		name := fmt.Sprintf("n%d", g.Rng.Intn(100))
		url := fmt.Sprintf("u%d", g.Rng.Intn(100))
		if invalid == "kind" {
			if g.Rng.Intn(2) == 0 {
				name = string(make([]byte, 2049))
			} else {
				url = string(make([]byte, 2049))
			}
			tag = "setdoc:long"
		}
		tx = web3.NewTrxSetDoc(g.KR.Addr(from), nonce, gas, price, name, url)
	case "contract":
		if g.Progs != nil {
			return g.Progs(g, v, from)
		}
		tx, tag = g.contractTx(v, from, nonce, price, bal)
		gas = tx.Gas
	}
	_ = zero
	if g.P.Boundary && tx != nil && g.Rng.Intn(5) == 0 {
		// the amount field of ANY transaction type at the 256-bit boundaries, in particular values that make fee + amount wrap
		feeNow := new(big.Int).Mul(price.ToBig(), new(big.Int).SetUint64(tx.Gas))
		wrap := new(big.Int).Sub(pow2(256), feeNow)
		pool := []*big.Int{wrap, new(big.Int).Add(wrap, big.NewInt(1)), new(big.Int).Sub(pow2(256), big.NewInt(1)), pow2(255),
			new(big.Int).Sub(pow2(255), big.NewInt(1)), new(big.Int).Sub(wrap, big.NewInt(1))}
		tx.Amount = u256(pool[g.Rng.Intn(len(pool))])
		tag += ":amountboundary"
	}
	auth := ""
	chain := g.G.ChainID
	signer := from
	switch invalid {
	case "nonce+":
		tx.Nonce += uint64(1 + g.Rng.Intn(2))
		tag += ":nonce+"
	case "nonce-":
		if tx.Nonce > 0 {
			tx.Nonce--
			tag += ":nonce-"
		}
	case "gas":
		if minGas > 0 {
			tx.Gas = minGas - 1
			tag += ":gaslow"
		}
	case "price":
		d := uint64(1)
		if g.Rng.Intn(2) == 0 || price.IsZero() {
			tx.GasPrice = new(uint256.Int).Add(price, uint256.NewInt(d))
		} else {
			tx.GasPrice = new(uint256.Int).Sub(price, uint256.NewInt(d))
		}
		tag += ":price"
	case "sig":
		signer = 1 + from%g.NAcct
		if signer == from {
			signer = 1 + (from+1)%g.NAcct
		}
		auth = "wrongkey"
		tag += ":wrongkey"
	case "chain":
		chain = g.G.ChainID + "x"
		auth = "wrongchain"
		tag += ":wrongchain"
	case "addrlen":
		// an address field that is not 20 bytes long: an existing address with bytes appended or cut off (correctly signed)
		pad := [][]byte{{0x01}, {0x00, 0x02}, bytes.Repeat([]byte{0x03}, 12), bytes.Repeat([]byte{0x04}, 20)}[g.Rng.Intn(4)]
		switch g.Rng.Intn(4) {
		case 0:
			tx.To = append(append([]byte{}, tx.To...), pad...)
		case 1:
			tx.To = append([]byte{}, g.B.KR.Addr(1+g.Rng.Intn(g.NAcct))...)
			tx.To = append(tx.To, pad...)
		case 2:
			tx.To = append([]byte{}, tx.To[:19]...)
		default:
			tx.From = append(append([]byte{}, tx.From...), pad...)
		}
		tag += ":addrlen"
	}
	at := int64(-1)
	if g.Rng.Intn(12) == 0 {
		// the creation time is a signed field no rule speaks about: any value, in particular times shortly before and
		// after the moment of execution (replicas execute the same bytes at different moments of the wall clock)
		now := time.Now()
		at = []int64{0, 1, now.Add(-time.Hour).UnixNano(), now.Add(3 * time.Second).UnixNano(), now.Add(10300 * time.Millisecond).UnixNano(),
			now.Add(10800 * time.Millisecond).UnixNano(), now.Add(12 * time.Second).UnixNano(), now.Add(time.Hour).UnixNano(), math.MaxInt64}[g.Rng.Intn(9)]
	}
	bz := g.B.Sign(tx, signer, chain)
	if at >= 0 {
		bz = g.B.SignAt(tx, signer, chain, at)
	}
	op := Op{Kind: "deliver", Tx: HexTx(bz), Auth: auth, Tag: tag}
	g.pool = append(g.pool, op)
	if len(g.pool) > 200 {
		g.pool = g.pool[1:]
	}
	return &op
}

// Stranger returns the hex address of an account that is never a validator.
func (g *Gen) Stranger() string { return g.KR.AddrHex(g.NAcct + 7) }
