package appdrv

import (
	"fmt"
	"github.com/holiman/uint256"
	rctypes "github.com/rigochain/rigo-go/ctrlers/types"
	"math/big"

	"github.com/rigochain/rigo-go/libs/web3"
)

// Directed EVM scenarios (C17; also C02/C04/C05/C16 for contract transactions).

func prog(name string, addrs map[string][]byte) []byte { return Asm(Programs[name], addrs) }

const cgas = uint64(300000)

func init() {
	Scenarios = append(Scenarios,
		Directed{"evm_basic", []string{"C17", "C16", "C04"}, fam(0), func(s *Script) {
			s.Blocks(2, allHdr)
			s.Begin(allHdr)
			ev, counter := s.Deploy(4, prog("counter", nil), 5, "0", cgas)
			s.expect(OK(ev), "deploy counter")
			ev, logger := s.Deploy(5, prog("store_log", nil), 0, "0", cgas)
			s.expect(OK(ev), "deploy store_log")
			s.expect(OK(s.CallC(4, counter, nil, "0", cgas)), "counter call 1")
			s.expect(OK(s.CallC(5, counter, nil, "0", cgas)), "counter call 2 by another account")
			s.End()
			s.Begin(Hdr{Proposer: 2})
			// read-only calls (vm_call query: caller | contract | calldata) between blocks and inside a block
			vmcall := func(from int, to []byte, data []byte) {
				q := append(append(append([]byte{}, s.R.KR.Addr(from)...), to...), data...)
				s.Query("vm_call", q, 0)
				s.Query("vm_call", q, s.R.Height)
			}
			vmcall(6, counter, nil) // would increment the counter if it were not read-only
			vmcall(6, logger, append(word([]byte{9}), word([]byte{9})...))
			s.expect(OK(s.CallC(6, logger, append(word([]byte{42}), word([]byte{7})...), "0", cgas)), "store_log call")
			vmcall(5, counter, nil)
			s.expect(OK(s.CallC(4, counter, nil, "0", cgas)), "counter call 3")
			ev, ctx := s.Deploy(4, prog("context", nil), 0, "0", cgas)
			s.expect(OK(ev), "deploy context reader")
			s.expect(OK(s.CallC(5, ctx, nil, "0", cgas)), "context call")
			ev, bal := s.Deploy(4, prog("balances", nil), 0, "123", cgas)
			s.expect(OK(ev), "deploy balances reader with value")
			s.Transfer(5, 6, "7e18")
			s.expect(OK(s.CallC(5, bal, word(s.R.KR.Addr(6)), "0", cgas)), "contract reads a balance changed by a native transfer in this block")
			s.Stake(6, 1, "2e18")
			s.expect(OK(s.CallC(5, bal, word(s.R.KR.Addr(6)), "0", cgas)), "contract reads a balance changed by staking in this block")
			s.End()
			s.Begin(allHdr)
			// slots written several times inside one transaction (metering by the value at the start of the transaction, refunds)
			ev, rs := s.Deploy(4, prog("restore", nil), 0, "0", cgas)
			s.expect(OK(ev), "deploy restore")
			ev, tc := s.Deploy(5, prog("triple_counter", nil), 4, "0", cgas)
			s.expect(OK(ev), "deploy triple_counter")
			s.expect(OK(s.CallC(6, rs, nil, "0", cgas)), "restore, first call (slots start at zero)")
			s.expect(OK(s.CallC(6, rs, nil, "0", cgas)), "restore, second call in the same block (slots start non-zero)")
			s.expect(OK(s.CallC(6, tc, nil, "0", cgas)), "triple_counter")
			s.End()
			s.Begin(allHdr)
			s.expect(OK(s.CallC(4, rs, nil, "0", cgas)), "restore in a later block")
			s.expect(OK(s.CallC(4, tc, nil, "0", cgas)), "triple_counter in a later block")
			s.expect(!OK(s.CallC(4, tc, nil, "0", 24000)), "triple_counter with too little gas")
			s.End()
			s.Blocks(1, allHdr)
		}},
		Directed{"evm_value", []string{"C17", "C02", "C16"}, fam(0), func(s *Script) {
			s.Blocks(2, allHdr)
			s.Begin(allHdr)
			ev, fwd := s.Deploy(4, prog("forwarder", nil), 0, "0", cgas)
			s.expect(OK(ev), "deploy forwarder")
			ev, sink := s.Deploy(4, prog("sink", nil), 0, "5", cgas)
			s.expect(OK(ev), "deploy sink with value")
			s.End()
			s.Begin(allHdr)
			s.expect(OK(s.CallC(5, fwd, word(s.R.KR.Addr(6)), "1000", cgas)), "forward value to an existing account")
			s.expect(OK(s.CallC(5, fwd, word(s.R.KR.Addr(12)), "2000", cgas)), "forward value to an account that does not exist yet")
			s.expect(OK(s.CallC(5, fwd, word(sink), "3000", cgas)), "forward value to another contract")
			s.expect(OK(s.TransferTo(6, sink, "4000", cgas)), "native transfer to a contract account is executed by the EVM")
			s.expect(OK(s.TransferTo(6, fwd, "100", cgas)), "native transfer to the forwarder (no calldata: forwards to address 0)")
			s.expect(!OK(s.TransferTo(6, sink, "1", 10)), "native transfer to a contract with less than the intrinsic gas fails")
			s.Transfer(12, 5, "500") // the account created by a contract spends natively
			s.End()
			s.Blocks(1, allHdr)
		}},
		Directed{"evm_nested_revert", []string{"C17", "C02"}, fam(0), func(s *Script) {
			s.Blocks(2, allHdr)
			fresh := s.R.KR.Addr(13)
			s.Begin(allHdr)
			ev, b := s.Deploy(4, prog("touch_and_revert", map[string][]byte{"fresh": fresh}), 0, "0", cgas)
			s.expect(OK(ev), "deploy B (touches a fresh address, sends it value, reverts)")
			ev, a := s.Deploy(4, prog("nested", map[string][]byte{"callee": b, "fresh": fresh}), 0, "0", cgas)
			s.expect(OK(ev), "deploy A (calls B, ignores the revert, then pays the fresh address)")
			s.End()
			s.Begin(allHdr)
			s.expect(OK(s.CallC(5, a, nil, "1000", cgas)), "A runs: B's effects are reverted, A's payment of 1 to the fresh address stays")
			s.expect(OK(s.CallC(6, a, nil, "3", cgas)), "again, the fresh address now exists")
			s.End()
			// the same with a funded account in the role of the address first touched inside the reverted call
			funded := s.R.KR.Addr(3)
			s.Begin(allHdr)
			ev, b2 := s.Deploy(4, prog("touch_and_revert", map[string][]byte{"fresh": funded}), 0, "0", cgas)
			s.expect(OK(ev), "deploy B' (touches a funded account, then reverts)")
			ev, a2 := s.Deploy(4, prog("nested", map[string][]byte{"callee": b2, "fresh": funded}), 0, "0", cgas)
			s.expect(OK(ev), "deploy A'")
			s.End()
			s.Begin(allHdr)
			s.expect(OK(s.CallC(5, a2, nil, "1000", cgas)), "A' runs: the funded account keeps its balance plus 1")
			s.End()
			// an account that has SENT native transactions is touched only inside the reverted inner call of a transaction
			// that succeeds as a whole: its nonce and balance stay what the native ledger says, its old transaction stays spent
			user := s.R.KR.Addr(6)
			s.Begin(allHdr)
			s.expect(OK(s.Transfer(6, 5, "1e18")), "a6 uses nonce 0 natively")
			old := s.Sc.Ops[len(s.Sc.Ops)-1]
			s.expect(OK(s.Transfer(6, 5, "2e18")), "and nonce 1")
			ev, b3 := s.Deploy(4, prog("touch_and_revert", map[string][]byte{"fresh": user}), 0, "0", cgas)
			s.expect(OK(ev), "deploy B'' (touches a6, then reverts)")
			ev, a3 := s.Deploy(4, prog("nested_quiet", map[string][]byte{"callee": b3}), 0, "0", cgas)
			s.expect(OK(ev), "deploy A'' (calls B'', ignores the revert, touches nothing else)")
			s.End()
			s.Begin(allHdr)
			s.expect(OK(s.CallC(5, a3, nil, "1000", cgas)), "A'' runs")
			s.expect(!OK(s.DeliverRaw(unhex(old.Tx), "valid", "replay:transfer")), "a6's spent transaction stays spent")
			s.expect(OK(s.Transfer(6, 5, "1e18")), "a6 goes on with nonce 2")
			s.End()
			s.Begin(allHdr)
			s.expect(!OK(s.DeliverRaw(unhex(old.Tx), "valid", "replay:transfer")), "also in a later block")
			s.End()
			s.Blocks(1, allHdr)
		}},
		Directed{"evm_selfdestruct", []string{"C17", "C02"}, fam(0), func(s *Script) {
			s.Blocks(2, allHdr)
			s.Begin(allHdr)
			ev, k1 := s.Deploy(4, prog("suicide", nil), 0, "700", cgas)
			s.expect(OK(ev), "deploy self-destructing contract 1 with value")
			ev, k2 := s.Deploy(4, prog("suicide", nil), 0, "900", cgas)
			s.expect(OK(ev), "deploy self-destructing contract 2 with value")
			ev, k3 := s.Deploy(4, prog("suicide_caller", nil), 0, "300", cgas)
			s.expect(OK(ev), "deploy self-destructing contract 3 with value")
			ev, k4 := s.Deploy(4, prog("suicide", nil), 0, "0", cgas)
			s.expect(OK(ev), "deploy self-destructing contract 4")
			s.End()
			s.Begin(allHdr)
			// a plain transfer (not a contract-type transaction) whose receiver destroys itself while handling it
			s.expect(OK(s.TransferTo(6, k3, "17", cgas)), "plain transfer to a contract that self-destructs to the caller")
			s.expect(OK(s.TransferTo(5, k4, "19", cgas)), "plain transfer to a contract that self-destructs to itself")
			s.expect(OK(s.Transfer(6, 5, "1")), "the sender's next nonce is usable")
			s.End()
			s.Begin(allHdr)
			s.expect(OK(s.CallC(5, k1, word(s.R.KR.Addr(6)), "11", cgas)), "self-destruct to a beneficiary")
			s.expect(OK(s.CallC(5, k2, nil, "13", cgas)), "self-destruct to itself (value is burnt by EVM definition)")
			s.End()
			s.Begin(allHdr)
			s.TransferTo(6, k2, "50", cgas) // plain transfer to the dead address
			s.TransferTo(6, k1, "60", cgas)
			s.End()
			s.Blocks(1, allHdr)
		}},
		Directed{"evm_fail", []string{"C17", "C05", "C04", "C16"}, fam(0), func(s *Script) {
			s.Blocks(2, allHdr)
			s.Begin(allHdr)
			_, loop := s.Deploy(4, prog("loop", nil), 0, "0", cgas)
			_, inv := s.Deploy(4, prog("invalid", nil), 0, "0", cgas)
			_, bad := s.Deploy(4, prog("badjump", nil), 0, "0", cgas)
			_, rev := s.Deploy(4, prog("reverter", nil), 0, "0", cgas)
			_, cnt := s.Deploy(4, prog("counter", nil), 1, "0", cgas)
			_, crv := s.Deploy(4, CreateThenFailRuntime("REVERT"), 0, "0", 900000)
			_, cin := s.Deploy(4, CreateThenFailRuntime("INVALID"), 0, "0", 900000)
			s.End()
			s.Begin(allHdr)
			s.expect(!OK(s.CallC(6, crv, nil, "0", 900000)), "a child is created, then the call reverts")
			s.expect(!OK(s.CallC(6, cin, nil, "3", 900000)), "a child is created, then the call hits an invalid opcode")
			s.TransferTo(6, childAddr(crv, 1), "5", 0) // a plain transfer to the address of the child that was never created
			s.TransferTo(6, childAddr(cin, 1), "5", 0)
			s.expect(!OK(s.CallC(5, loop, nil, "0", 100000)), "out of gas")
			s.expect(!OK(s.CallC(5, inv, nil, "5", cgas)), "invalid opcode (with value)")
			s.expect(!OK(s.CallC(5, bad, nil, "0", cgas)), "bad jump")
			s.expect(!OK(s.CallC(5, rev, nil, "9", cgas)), "revert with data and value")
			s.expect(OK(s.CallC(5, cnt, nil, "0", cgas)), "a good call after failures by the same sender")
			s.expect(!OK(s.CallC(5, cnt, nil, "0", 20000)), "gas below the intrinsic gas")
			s.expect(!OK(s.CallC(5, cnt, nil, "0", 21001)), "gas just above intrinsic: out of gas in the call")
			huge := "999999999999999999999999999"
			s.expect(!OK(s.CallC(5, cnt, nil, huge, cgas)), "value above the balance")
			s.expect(!OK(func() J { ev, _ := s.Deploy(5, []byte{0xfe}, 0, "0", 40000); return ev }()), "deployment that runs out of gas")
			s.expect(OK(s.CallC(5, s.R.KR.Addr(6), []byte{1, 2, 3}, "77", cgas)), "contract-type call to a plain account moves the value")
			s.expect(OK(s.CallC(5, cnt, nil, "0", cgas)), "the counter still works")
			s.End()
			s.Blocks(1, allHdr)
		}},
		Directed{"transfer_to_created", []string{"C17"}, fam(0), func(s *Script) {
			s.Blocks(2, allHdr)
			s.Begin(allHdr)
			ev, cr := s.Deploy(4, CreatorRuntime(), 0, "0", 900000)
			s.expect(OK(ev), "deploy creator")
			s.End()
			s.Begin(allHdr)
			s.expect(OK(s.CallC(5, cr, nil, "40", 900000)), "creator creates a child contract (counter) with value and calls it")
			s.End()
			// the child is the first contract created by cr: address = CreateAddress(cr, 1)
			child := childAddr(cr, 1)
			s.Begin(allHdr)
			s.expect(OK(s.CallC(6, child, nil, "0", cgas)), "contract call to the child")
			s.TransferTo(6, child, "9", cgas) // plain transfer to a contract that was created by a contract
			s.expect(OK(s.CallC(6, child, nil, "0", cgas)), "contract call to the child after the transfer")
			s.End()
			s.Blocks(1, allHdr)
		}},
		Directed{"payload_injection", []string{"C03"}, fam(0), func(s *Script) {
			// a signed plain transfer to a contract, delivered with a payload somebody else attached (input data naming
			// another receiver); a transfer has no payload: the bytes are not covered by the signature and must not be
			// executed either - the delivered bytes do exactly what the signed transaction does
			kr := s.R.KR
			chain := s.Sc.Genesis.ChainID
			s.Blocks(2, allHdr)
			s.Begin(allHdr)
			ev, fw := s.Deploy(4, prog("forwarder", nil), 0, "0", cgas)
			s.expect(OK(ev), "deploy forwarder")
			s.End()
			s.Begin(allHdr)
			for i, inject := range [][]byte{word(kr.Addr(6)), {}, {1, 2, 3}} {
				good := s.B.Sign(web3.NewTrxTransfer(kr.Addr(5), fw, s.nonce(5), cgas, s.price(), Amt("1000")), 5, chain)
				m := cloneTx(good)
				m.Payload = &rctypes.TrxPayloadContract{Data: inject}
				s.do(Op{Kind: "deliver", Tx: HexTx(Encode(m)), RefTx: HexTx(good), Tag: fmt.Sprintf("transfer:tocontract:injected%d", i)})
			}
			// the same on a plain account and for a staking transaction
			good := s.B.Sign(s.TxTransfer(5, 6, "1000"), 5, chain)
			m := cloneTx(good)
			m.Payload = &rctypes.TrxPayloadContract{Data: word(kr.Addr(4))}
			s.do(Op{Kind: "deliver", Tx: HexTx(Encode(m)), RefTx: HexTx(good), Tag: "transfer:injected"})
			good = s.B.Sign(s.TxStake(5, 1, "2e18"), 5, chain)
			m = cloneTx(good)
			m.Payload = &rctypes.TrxPayloadUnstaking{TxHash: make([]byte, 32)}
			s.do(Op{Kind: "deliver", Tx: HexTx(Encode(m)), RefTx: HexTx(good), Tag: "staking:injected"})
			s.End()
			s.Blocks(1, allHdr)
		}},
		Directed{"evm_price_above", []string{"C02", "C16", "C05"}, fam(0), func(s *Script) {
			// contract transactions and transfers to a contract that offer more than the governance gas price
			kr := s.R.KR
			chain := s.Sc.Genesis.ChainID
			s.Blocks(2, allHdr)
			s.Begin(allHdr)
			ev, cnt := s.Deploy(4, prog("counter", nil), 5, "0", cgas)
			s.expect(OK(ev), "deploy counter")
			s.End()
			s.Begin(allHdr)
			for i, mult := range []uint64{2, 3} {
				hi := new(uint256.Int).Mul(s.price(), uint256.NewInt(mult))
				if i == 1 {
					hi = new(uint256.Int).Add(s.price(), uint256.NewInt(1))
				}
				s.DeliverRaw(s.B.Sign(web3.NewTrxContract(kr.Addr(5), cnt, s.nonce(5), cgas, hi, Amt("0"), nil), 5, chain), "", "contract:call:pricehigh")
				s.DeliverRaw(s.B.Sign(web3.NewTrxTransfer(kr.Addr(5), cnt, s.nonce(5), cgas, hi, Amt("7")), 5, chain), "", "transfer:tocontract:pricehigh")
				s.DeliverRaw(s.B.Sign(web3.NewTrxContract(kr.Addr(5), kr.Addr(6), s.nonce(5), cgas, hi, Amt("9"), nil), 5, chain), "", "contract:toplain:pricehigh")
				s.DeliverRaw(s.B.Sign(web3.NewTrxTransfer(kr.Addr(5), kr.Addr(6), s.nonce(5), s.gas(), hi, Amt("9")), 5, chain), "", "transfer:pricehigh")
			}
			s.expect(OK(s.CallC(5, cnt, nil, "0", cgas)), "a call at the governance price")
			s.End()
			s.Blocks(1, allHdr)
		}},
		Directed{"zero_gas_price", []string{"C04", "C16", "C17", "C05"}, famWith(0, map[string]string{"gasPrice": "0"}), func(s *Script) {
			// transactions are free: a transaction without value leaves its sender's balance exactly where it was, and
			// still uses up its nonce - natively and through the EVM
			kr := s.R.KR
			chain := s.Sc.Genesis.ChainID
			s.Blocks(2, allHdr)
			s.Begin(allHdr) // 3
			ev, cnt := s.Deploy(4, prog("counter", nil), 5, "0", cgas)
			s.expect(OK(ev), "deploy counter (free)")
			call := s.B.Sign(web3.NewTrxContract(kr.Addr(5), cnt, s.nonce(5), cgas, s.price(), Amt("0"), nil), 5, chain)
			s.expect(OK(s.DeliverRaw(call, "", "contract:call")), "a5 calls the counter: its balance does not move")
			s.expect(!OK(s.DeliverRaw(call, "", "replay:contract:call")), "the same bytes again in the same block")
			tr := s.B.Sign(web3.NewTrxTransfer(kr.Addr(6), kr.Addr(4), s.nonce(6), s.gas(), s.price(), Amt("0")), 6, chain)
			s.expect(OK(s.DeliverRaw(tr, "", "transfer")), "a6 transfers nothing for nothing")
			s.expect(!OK(s.DeliverRaw(tr, "", "replay:transfer")), "the same bytes again")
			s.End()
			s.Begin(allHdr) // 4
			s.expect(!OK(s.DeliverRaw(call, "", "replay:contract:call")), "the call again in a later block")
			s.expect(!OK(s.DeliverRaw(tr, "", "replay:transfer")), "the transfer again in a later block")
			s.expect(OK(s.CallC(5, cnt, nil, "0", cgas)), "a5 calls again with its next nonce")
			s.TransferTo(6, cnt, "0", cgas) // plain transfer of nothing to the contract
			s.expect(OK(s.CallC(6, kr.Addr(5), nil, "0", cgas)), "contract-type transaction to a plain account, no value")
			s.expect(OK(s.SetDoc(6, "n", "u")), "set-doc for nothing")
			s.End()
			s.Restart()
			s.Begin(allHdr) // 5
			s.expect(!OK(s.DeliverRaw(call, "", "replay:contract:call")), "the call again after a restart")
			s.expect(OK(s.CallC(5, cnt, nil, "3", cgas)), "a call with value")
			s.End()
			s.Blocks(1, allHdr)
		}},
		Directed{"prefund_then_create", []string{"C17", "C02"}, fam(0), func(s *Script) {
			// an address receives value and becomes a contract later in the SAME transaction: the new contract owns it
			s.Blocks(2, allHdr)
			s.Begin(allHdr)
			ev, cr := s.Deploy(4, PrefundCreatorRuntime(), 0, "0", 900000)
			s.expect(OK(ev), "deploy the pre-funding creator")
			s.End()
			s.Begin(allHdr)
			s.expect(OK(s.CallC(5, cr, word(childAddr(cr, 1)), "1000", 900000)), "value forwarded to the address of the child, then the child is created there")
			s.expect(OK(s.CallC(6, cr, word(childAddr(cr, 2)), "0", 900000)), "the same without value")
			s.End()
			s.Begin(allHdr)
			s.TransferTo(6, childAddr(cr, 3), "500", 0) // the third child's address is funded in an earlier transaction
			s.expect(OK(s.CallC(5, cr, word(childAddr(cr, 3)), "7", 900000)), "pre-funded natively, funded again in the transaction, then created")
			s.expect(OK(s.CallC(6, childAddr(cr, 1), nil, "0", cgas)), "the first child works")
			s.End()
			s.Blocks(1, allHdr)
		}},
		Directed{"evm_quiet_blocks", []string{"C08", "C07", "C17"}, fam(0), func(s *Script) {
			// contract state exists, and most blocks do not touch it: restarts and crashes after blocks that leave the
			// EVM state root unchanged
			s.Blocks(2, allHdr)
			s.Begin(allHdr) // 3
			ev, cnt := s.Deploy(4, prog("counter", nil), 5, "0", cgas)
			s.expect(OK(ev), "deploy counter")
			ev, lg := s.Deploy(5, prog("store_log", nil), 0, "0", cgas)
			s.expect(OK(ev), "deploy store_log")
			ev, sc := s.Deploy(6, prog("store_context", nil), 0, "0", cgas)
			s.expect(OK(ev), "deploy a contract that reads the block context")
			s.End()
			s.Begin(allHdr) // 4
			s.expect(OK(s.CallC(5, cnt, nil, "0", cgas)), "counter call")
			s.expect(OK(s.CallC(5, sc, nil, "0", cgas)), "block context read in block 4")
			s.End()
			s.Blocks(2, allHdr) // 5, 6
			s.Begin(allHdr)     // 7
			s.expect(OK(s.Transfer(4, 5, "2e18")), "native transfer")
			s.End()
			s.Begin(allHdr) // 8
			s.expect(OK(s.Stake(6, 1, "3e18")), "native staking")
			s.End()
			s.Begin(allHdr) // 9
			s.expect(OK(s.Transfer(5, 6, "1e18")), "native transfer")
			s.End()
			s.Begin(allHdr) // 10
			s.expect(OK(s.CallC(6, cnt, nil, "0", cgas)), "counter call after quiet blocks")
			s.expect(OK(s.CallC(6, sc, nil, "0", cgas)), "block context read in block 10")
			s.expect(OK(s.Transfer(4, 6, "1e18")), "native transfer")
			s.End()
			s.Blocks(1, allHdr)       // 11
			s.Begin(Hdr{Proposer: 2}) // 12
			s.expect(OK(s.CallC(4, lg, append(word([]byte{42}), word([]byte{7})...), "0", cgas)), "store_log call")
			s.expect(OK(s.CallC(4, cnt, nil, "0", cgas)), "counter call")
			s.expect(OK(s.CallC(4, sc, nil, "0", cgas)), "block context read in block 12 (another proposer)")
			s.End()
			s.Blocks(3, allHdr)
		}},
		Directed{"native_to_contract", []string{"C16", "C04", "C05", "C17"}, fam(0), func(s *Script) {
			// native transactions of every type that name a contract account (or a plain third account) as receiver
			s.Blocks(2, allHdr)
			s.Begin(allHdr) // 3
			ev, sink := s.Deploy(4, prog("sink", nil), 0, "0", cgas)
			s.expect(OK(ev), "deploy a contract that accepts everything")
			ev, cnt := s.Deploy(5, prog("counter", nil), 1, "0", cgas)
			s.expect(OK(ev), "deploy counter")
			s.End()
			s.Blocks(2, allHdr)
			kr := s.R.KR
			for round, to := range [][]byte{sink, cnt, kr.Addr(6)} {
				s.Begin(Hdr{Proposer: 1 + round%3})
				tx := web3.NewTrxSetDoc(kr.Addr(4), s.nonce(4), s.gas(), s.price(), "n", "u")
				tx.To = to
				s.Deliver(tx, 4, "setdoc:to-other")
				tx = web3.NewTrxWithdraw(kr.Addr(1), to, s.nonce(1), s.gas(), s.price(), Amt("1000"))
				s.Deliver(tx, 1, "withdraw:to-other")
				tx = web3.NewTrxStaking(kr.Addr(5), to, s.nonce(5), s.gas(), s.price(), Amt("2e18"))
				s.Deliver(tx, 5, "staking:to-other")
				tx = web3.NewTrxProposal(kr.Addr(2), to, s.nonce(2), s.gas(), s.price(), "m", s.H+2, 2, s.H+8, 0x0101, []byte(`{"gasPrice":"20"}`))
				s.Deliver(tx, 2, "proposal:to-other")
				if ids := s.StakeIDs(1, 1); len(ids) > 0 {
					tx = web3.NewTrxUnstaking(kr.Addr(1), to, s.nonce(1), s.gas(), s.price(), kr.HashOf(ids[0]))
					s.Deliver(tx, 1, "unstaking:to-other")
				}
				s.expect(OK(s.Transfer(4, 5, "1e18")), "an ordinary transfer afterwards")
				s.expect(OK(s.CallC(6, cnt, nil, "0", cgas)), "a contract call afterwards")
				s.End()
			}
			s.Blocks(2, allHdr)
		}},
		Directed{"evm_rejected_then_more", []string{"C05", "C17", "C02", "C16"}, fam(0), func(s *Script) {
			// contract-routed transactions that the EVM refuses before running any code (gas below the intrinsic gas on the
			// plain-transfer route, gas above what is left of the block's pool), each followed by native traffic to the same
			// sender and by further contract transactions in the same block
			s.Blocks(2, allHdr)
			s.Begin(allHdr)
			_, sink := s.Deploy(4, prog("sink", nil), 0, "0", cgas)
			_, cnt := s.Deploy(4, prog("counter", nil), 1, "0", cgas)
			s.End()
			s.Begin(Hdr{Proposer: 2})
			s.expect(!OK(s.TransferTo(5, sink, "7", 100)), "plain transfer to a contract with gas below the intrinsic gas")
			s.expect(OK(s.Transfer(6, 5, "500")), "the sender of the refused transaction receives a native transfer")
			s.expect(OK(s.CallC(6, cnt, nil, "0", cgas)), "another account's contract call")
			s.expect(OK(s.CallC(5, cnt, nil, "0", cgas)), "the same sender's contract call")
			s.End()
			s.Begin(Hdr{Proposer: 3})
			s.expect(!OK(s.CallC(5, cnt, nil, "0", 26_000_000)), "gas above the block's pool")
			s.expect(OK(s.Transfer(4, 5, "300")), "native income after the refusal")
			s.expect(!OK(s.TransferTo(6, sink, "1", 20999)), "one below the intrinsic gas")
			s.expect(OK(s.TransferTo(6, sink, "1", 21000)), "exactly the intrinsic gas")
			s.expect(OK(s.CallC(4, cnt, nil, "0", cgas)), "a later contract call by a third account")
			s.expect(!OK(s.CallC(5, cnt, nil, "0", 24_990_000)), "gas above what is left of the pool")
			s.expect(OK(s.CallC(5, cnt, nil, "0", cgas)), "the refused sender's next call")
			s.End()
			s.Blocks(2, allHdr)
		}},
		Directed{"evm_sweep_to_zero", []string{"C04", "C17", "C02"}, fam(0), func(s *Script) {
			// accounts whose balance becomes exactly zero through / next to contract execution, then are funded and used again
			s.Blocks(2, allHdr)
			bal := func(a int) *big.Int { return FromLimbs(s.View().Accts[fmt.Sprintf("a%d", a)].Bal) }
			s.Begin(allHdr) // 3
			s.expect(OK(s.Transfer(6, 5, "1e18")), "a6 uses nonce 0 natively")
			first := s.Sc.Ops[len(s.Sc.Ops)-1] // the signed bytes of that transfer, for a later replay
			s.expect(OK(s.Transfer(5, 4, "1e18")), "a5 uses nonce 0 natively")
			s.End()
			s.Begin(allHdr) // 4: a6 sweeps everything to a4 with a contract-type transaction (21000 gas at price 10)
			sweep := new(big.Int).Sub(bal(6), big.NewInt(210000))
			s.expect(OK(s.CallC(6, s.R.KR.Addr(4), nil, sweep.String(), 21000)), "sweep through the EVM leaves exactly zero")
			// a5 drains itself natively (balance - fee), then is the target of a zero-value contract-type call
			drain := new(big.Int).Sub(bal(5), new(big.Int).Mul(big.NewInt(int64(s.gas())), s.price().ToBig()))
			s.expect(OK(s.Transfer(5, 4, drain.String())), "native drain to exactly zero")
			s.expect(OK(s.CallC(4, s.R.KR.Addr(5), nil, "0", 21000)), "zero-value contract-type call to the drained account")
			s.End()
			s.Begin(allHdr) // 5: both are funded again; an old signed transaction is replayed
			s.expect(OK(s.Transfer(4, 6, "5e18")), "fund a6 again")
			s.expect(OK(s.Transfer(4, 5, "5e18")), "fund a5 again")
			s.End()
			s.Begin(allHdr) // 6
			s.expect(!OK(s.DeliverRaw(unhex(first.Tx), "valid", "replay:transfer")), "the old nonce-0 transfer must not run again")
			s.expect(OK(s.Transfer(6, 4, "1e18")), "a6 continues with its next nonce")
			s.expect(OK(s.Transfer(5, 4, "1e18")), "a5 continues with its next nonce")
			s.End()
			s.Blocks(1, allHdr)
		}},
		Directed{"evm_odd_addresses", []string{"C17", "C02", "C05"}, fam(0), func(s *Script) {
			// the precompile addresses 0x01..0x09 as ordinary holders of value, and deployments that leave no code behind
			s.Blocks(2, allHdr)
			pre := func(i byte) []byte { a := make([]byte, 20); a[19] = i; return a }
			s.Begin(allHdr) // 3
			ev, bal := s.Deploy(4, prog("balances", nil), 0, "0", cgas)
			s.expect(OK(ev), "deploy balances reader")
			ev, fwd := s.Deploy(4, prog("forwarder", nil), 0, "0", cgas)
			s.expect(OK(ev), "deploy forwarder")
			s.expect(OK(s.TransferTo(5, pre(2), "1000", 0)), "native transfer to the address of a precompile")
			s.expect(OK(s.TransferTo(5, pre(9), "7", 0)), "and to another one")
			s.End()
			s.Begin(allHdr) // 4
			s.expect(OK(s.CallC(6, bal, word(pre(2)), "0", cgas)), "a contract reads the balance of 0x02")
			s.expect(OK(s.CallC(6, fwd, word(pre(2)), "500", cgas)), "a contract forwards value to 0x02")
			s.expect(OK(s.CallC(6, fwd, word(pre(4)), "30", cgas)), "and to 0x04 (identity)")
			s.expect(OK(s.CallC(6, bal, word(pre(2)), "0", cgas)), "the balance is read again")
			s.TransferTo(6, pre(1), "5", cgas) // a transfer with a high gas limit to a precompile address
			s.End()
			s.Begin(Hdr{Proposer: 2}) // 5: deployments that end without code
			ev, _ = s.deployRaw(5, []byte{0x00}, "777", cgas)
			s.expect(OK(ev), "init code STOP: an account without code, holding the value")
			ev, _ = s.deployRaw(5, nil, "0", cgas)
			s.expect(OK(ev), "empty init code")
			ev, _ = s.deployRaw(5, Asm("CALLER SELFDESTRUCT", nil), "55", cgas)
			s.expect(OK(ev), "a constructor that self-destructs")
			ev, _ = s.deployRaw(5, Asm("0 0 REVERT", nil), "5", cgas)
			s.expect(!OK(ev), "a constructor that reverts")
			s.expect(OK(s.Transfer(5, 6, "1e18")), "the deployer goes on")
			s.End()
			s.Blocks(1, allHdr)
		}},
		Directed{"mingas_above_intrinsic", []string{"C16", "C15", "C17"}, fam(0), func(s *Script) {
			// governance raises the minimum gas above what a simple contract transaction uses (21000): the sender still
			// pays for the gas used, and the proposer receives exactly that
			s.Blocks(3, allHdr)
			s.Begin(allHdr) // 4
			s.expect(OK(s.Propose(1, 6, 2, 10, `{"minTrxGas":"50000"}`)), "proposal: minimum gas 50000")
			ev, sink := s.Deploy(4, prog("sink", nil), 0, "0", cgas)
			s.expect(OK(ev), "deploy a contract that accepts value")
			s.End()
			p := s.Proposals()
			s.Blocks(1, allHdr)
			s.Begin(allHdr) // 6
			for v := 1; v <= 3 && len(p) == 1; v++ {
				s.Vote(v, p[0], 0)
			}
			s.End()
			s.Blocks(4, allHdr) // 7..10: applied at 10
			for i := 0; i < 3; i++ {
				s.Begin(Hdr{Proposer: 1 + i%3})
				s.expect(!OK(s.CallC(5, s.R.KR.Addr(6), nil, "1", 49999)), "gas limit below the new minimum")
				s.expect(OK(s.CallC(5, s.R.KR.Addr(6), nil, "1", 60000)), "a contract-type payment that uses 21000 of 60000 gas")
				s.expect(OK(s.TransferTo(6, sink, "5", 70000)), "a plain transfer to a contract, 70000 gas limit")
				s.expect(OK(s.TransferTo(4, s.R.KR.Addr(5), "1e18", 50000)), "a native transfer at the new minimum")
				s.End()
			}
			s.Blocks(1, allHdr)
		}},
		Directed{"evm_mixed", []string{"C17", "C02", "C04", "C16"}, fam(2), func(s *Script) {
			// contract transactions interleaved with staking, withdrawal and fees on the same accounts; the proposer uses contracts
			s.Blocks(3, allHdr)
			s.Begin(Hdr{Proposer: 5})
			ev, fwd := s.Deploy(5, prog("forwarder", nil), 0, "0", cgas)
			s.expect(OK(ev), "the proposer deploys a contract")
			ev, cnt := s.Deploy(6, prog("counter", nil), 3, "0", cgas)
			s.expect(OK(ev), "deploy counter")
			s.Stake(6, 5, "4e18")
			s.CallC(6, fwd, word(s.R.KR.Addr(5)), "1e18", cgas) // pays the proposer through a contract
			s.End()
			s.Begin(Hdr{Proposer: 5, Evidence: []int{4}})
			s.CallC(5, cnt, nil, "0", cgas)
			s.Withdraw(5, "1")
			s.CallC(5, fwd, word(s.R.KR.Addr(7)), "5e17", cgas)
			s.Transfer(7, 6, "1e17")
			if ids := s.StakeIDs(6, 5); len(ids) > 0 {
				s.Unstake(6, 5, ids[0])
			}
			s.CallC(6, cnt, nil, "0", cgas)
			s.End()
			s.Blocks(4, allHdr)
		}},
	)
}
