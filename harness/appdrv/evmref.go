package appdrv

import (
	"math/big"
	"sort"

	"github.com/ethereum/go-ethereum/common"
	ethcore "github.com/ethereum/go-ethereum/core"
	"github.com/ethereum/go-ethereum/core/state"
	ethtypes "github.com/ethereum/go-ethereum/core/types"
	ethvm "github.com/ethereum/go-ethereum/core/vm"
	rctypes "github.com/rigochain/rigo-go/ctrlers/types"
	"github.com/rigochain/rigo-go/ctrlers/vm/evm"
	"github.com/rigochain/rigo-go/ledger"
	rtypes "github.com/rigochain/rigo-go/types"
)

// The reference for C17: the same (trusted) go-ethereum interpreter executed on
// a plain state.StateDB - a deep copy of the EVM state before the transaction
// in which balance and nonce of EVERY native account are set from the native
// ledger - with a block context and a message built here from the
// transaction and the block header, independently of the repository's
// StateDBWrapper, evmBlockContext and evmMessage.

const refGasLimit = uint64(25_000_000)

// RefResult is the outcome of the reference run, in trace form.
type RefResult struct {
	OK      bool
	VMErr   string
	Ret     []byte
	GasUsed uint64
	Logs    int
	Post    *state.StateDB
	Burn    *big.Int // value destroyed by self-destruct (to self, or funds sent to an account destroyed in the same transaction)
	Touched []common.Address
}

// recorder notes every address whose balance the interpreter moves.
type recorder struct {
	*state.StateDB
	touched map[common.Address]bool
}

func (r *recorder) AddBalance(a common.Address, v *big.Int) {
	r.touched[a] = true
	r.StateDB.AddBalance(a, v)
}
func (r *recorder) SubBalance(a common.Address, v *big.Int) {
	r.touched[a] = true
	r.StateDB.SubBalance(a, v)
}
func (r *recorder) CreateAccount(a common.Address) { r.touched[a] = true; r.StateDB.CreateAccount(a) }
func (r *recorder) Suicide(a common.Address) bool  { r.touched[a] = true; return r.StateDB.Suicide(a) }

func refBlockContext(proposer []byte, height int64, unixTime int64) ethvm.BlockContext {
	var coinbase common.Address
	copy(coinbase[:], proposer)
	return ethvm.BlockContext{
		CanTransfer: func(db ethvm.StateDB, a common.Address, amt *big.Int) bool { return db.GetBalance(a).Cmp(amt) >= 0 },
		Transfer: func(db ethvm.StateDB, from, to common.Address, amt *big.Int) {
			db.SubBalance(from, amt)
			db.AddBalance(to, amt)
		},
		GetHash:     func(uint64) common.Hash { return common.Hash{} },
		Coinbase:    coinbase,
		BlockNumber: big.NewInt(height),
		Time:        big.NewInt(unixTime),
		Difficulty:  big.NewInt(1),
		BaseFee:     big.NewInt(0),
		GasLimit:    refGasLimit,
	}
}

// seedFromNative copies balance and nonce of every native account into st.
func seedFromNative(a *App, st *state.StateDB) {
	a.Core.VerifView().Acct.VerifLedger().VerifConsensusView(func(k ledger.LedgerKey, ac *rctypes.Account) {
		// an account is what its 32-byte ledger key says (the address right-padded with zeros): that is how the bridge
		// finds it for a 20-byte EVM address, whatever the length of the address field stored in the record (a refused
		// transaction with a 19-byte receiver field leaves an empty record under the key of the padded address)
		for _, b := range k[20:] {
			if b != 0 {
				return
			}
		}
		var ad common.Address
		copy(ad[:], k[:20])
		st.SetBalance(ad, ac.Balance.ToBig())
		st.SetNonce(ad, ac.Nonce)
	})
}

func totalOf(st *state.StateDB, addrs []common.Address) *big.Int {
	t := new(big.Int)
	for _, a := range addrs {
		t.Add(t, st.GetBalance(a))
	}
	return t
}

// ReferenceRun executes tx on the reference world. gasPrice is the governance price active in the block.
func ReferenceRun(a *App, tx *rctypes.Trx, proposer []byte, height, unixTime int64, gasPrice *big.Int, txhash []byte, txidx int) (res *RefResult) {
	st := a.Core.VerifView().EVM.VerifStateCopy()
	if st == nil {
		return nil
	}
	seedFromNative(a, st)
	res = &RefResult{Post: st, Burn: new(big.Int)}
	var from common.Address
	copy(from[:], tx.From)
	var to *common.Address
	if len(tx.To) == 20 && !rtypes.IsZeroAddress(tx.To) {
		to = new(common.Address)
		copy(to[:], tx.To)
	}
	var data []byte
	if p, ok := tx.Payload.(*rctypes.TrxPayloadContract); ok {
		data = p.Data
	}
	msg := ethtypes.NewMessage(from, to, tx.Nonce, tx.Amount.ToBig(), tx.Gas, gasPrice, big.NewInt(0), big.NewInt(0), data, nil, false)
	rec := &recorder{StateDB: st, touched: map[common.Address]bool{}}
	vmenv := ethvm.NewEVM(refBlockContext(proposer, height, unixTime), ethcore.NewEVMTxContext(msg), rec, evm.RIGOMainnetEVMCtrlerChainConfig, ethvm.Config{NoBaseFee: true})
	var h common.Hash
	copy(h[:], txhash)
	st.Prepare(h, txidx)
	snap := st.Snapshot()
	before := st.Copy()
	// the block's gas pool: what the transactions executed so far in this block have left (the block gas limit is a
	// rule of the EVM's state transition, so the reference applies it too)
	left := refGasLimit
	if g := a.Core.VerifView().EVM.VerifVolatile().GasPool; g > 0 && g < refGasLimit {
		left = g
	}
	gp := new(ethcore.GasPool).AddGas(left)
	// standard rule: the sender must be able to pay gas limit x price plus the value. (The message carries a zero
	// fee cap because rigo-go credits fees to the proposer natively at the end of the block, not inside the EVM;
	// with a zero fee cap go-ethereum's own balance check only covers the value.)
	need := new(big.Int).Mul(new(big.Int).SetUint64(tx.Gas), gasPrice)
	need.Add(need, tx.Amount.ToBig())
	if st.GetBalance(from).Cmp(need) < 0 {
		res.VMErr = "insufficient funds for gas * price + value"
		return res
	}
	r, err := ethcore.ApplyMessage(vmenv, msg, gp)
	if err != nil {
		st.RevertToSnapshot(snap)
		res.VMErr = err.Error()
		return res
	}
	if r.Failed() {
		// rigo-go rolls the whole transaction back (no fee, no nonce bump): C04/C05
		st.RevertToSnapshot(snap)
		res.VMErr, res.Ret = r.Err.Error(), r.ReturnData
		return res
	}
	res.OK, res.Ret, res.GasUsed = true, r.ReturnData, r.UsedGas
	res.Logs = len(st.GetLogs(h, common.Hash{}))
	st.Finalise(true)
	// value burnt by the EVM's own rules: compare the total over all accounts known before or after
	seen := map[common.Address]bool{}
	var all []common.Address
	a.Core.VerifView().Acct.VerifLedger().VerifConsensusView(func(k ledger.LedgerKey, ac *rctypes.Account) {
		var ad common.Address
		copy(ad[:], ac.Address)
		if !seen[ad] {
			seen[ad] = true
			all = append(all, ad)
		}
	})
	for ad := range rec.touched {
		res.Touched = append(res.Touched, ad)
		if !seen[ad] {
			seen[ad] = true
			all = append(all, ad)
		}
	}
	sort.Slice(res.Touched, func(i, j int) bool { return res.Touched[i].Hex() < res.Touched[j].Hex() })
	fee := new(big.Int).Mul(new(big.Int).SetUint64(r.UsedGas), gasPrice)
	burn := new(big.Int).Sub(totalOf(before, all), totalOf(st, all))
	burn.Sub(burn, fee)
	if burn.Sign() > 0 {
		res.Burn = burn
	}
	return res
}

// RefProjection renders the reference post-state for the accounts that exist natively after the
// transaction or that the reference touched: balances, nonces, code and storage digests.
func RefProjection(res *RefResult, kr *Keyring, addrs map[string][]byte) J {
	bal, nonce, evmp := J{}, J{}, J{}
	st := res.Post
	st.IntermediateRoot(true)
	for name, ab := range addrs {
		if len(ab) != 20 {
			continue
		}
		var ad common.Address
		copy(ad[:], ab)
		bal[name] = LimbsBig(st.GetBalance(ad))
		nonce[name] = int(st.GetNonce(ad))
		if code := st.GetCode(ad); len(code) > 0 {
			root := common.Hash{}
			if tr := st.StorageTrie(ad); tr != nil {
				root = tr.Hash()
			}
			evmp[name] = J{"code": kr.Tok(sha(code)), "storage": kr.Tok(root.Bytes())}
		}
	}
	return J{"bal": bal, "nonce": nonce, "evm": evmp}
}
