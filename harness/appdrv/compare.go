package appdrv

import (
	"crypto/sha256"
	"encoding/hex"
	"encoding/json"
	"fmt"
	"math/rand"
	"os"
	"sort"
	"strings"
	"time"

	"github.com/holiman/uint256"
	rctypes "github.com/rigochain/rigo-go/ctrlers/types"
	"github.com/rigochain/rigo-go/libs/web3"
	"github.com/rigochain/rigo-go/types"
	abcitypes "github.com/tendermint/tendermint/abci/types"
)

// Output is what one consensus call returned to the consensus engine, in a
// form that is comparable across replicas and processes, plus a digest of the
// consensus state after the call.
type Output struct {
	Kind  string `json:"kind"`
	Out   string `json:"out"`
	State string `json:"state"`
}

func dig(parts ...[]byte) string {
	h := sha256.New()
	for _, p := range parts {
		h.Write([]byte(fmt.Sprintf("%d:", len(p))))
		h.Write(p)
	}
	return hex.EncodeToString(h.Sum(nil))[:20]
}

// Run executes a scenario on a fresh replica without recording projections and
// returns, per op index, the comparable output (nil for ops the replica skips).
// If a panic kills the replica, the remaining outputs are "DEAD".
func RunOutputs(sc *Scenario, name, root string, withState bool) ([]*Output, *Replica, error) {
	outs := make([]*Output, len(sc.Ops))
	r, err := NewReplica(name, root, &sc.Genesis, sc.NAccts, func(J) {})
	if err != nil {
		return nil, nil, err
	}
	r.NoProj = true
	r.QueryAfterCommit = false
	defer r.Close()
	for i := range sc.Ops {
		op := &sc.Ops[i]
		if op.Only != "" && op.Only != name {
			continue
		}
		o := &Output{Kind: op.Kind}
		outs[i] = o
		if r.Dead != "" && op.Kind != "restart" {
			o.Out, o.State = "DEAD", "DEAD"
			continue
		}
		o.Out = r.execOut(op)
		if withState && r.Dead == "" {
			o.State = StateDigest(r.App, r.KR)
		}
	}
	return outs, r, nil
}

// execOut executes one op and returns the digest of what the consensus engine sees.
func (r *Replica) execOut(op *Op) string {
	var out string
	pm := Call(func() {
		switch op.Kind {
		case "begin":
			r.App.Core.BeginBlock(op.Hdr.Request())
			r.InBlock = true
			out = "begin" // BeginBlock returns only events (not part of the replicated outputs)
		case "deliver":
			resp := r.App.Core.DeliverTx(abcitypes.RequestDeliverTx{Tx: unhex(op.Tx)})
			out = dig([]byte(fmt.Sprint(resp.Code)), resp.Data, []byte(fmt.Sprint(resp.GasWanted)), []byte(fmt.Sprint(resp.GasUsed)))
		case "end":
			resp := r.App.Core.EndBlock(abcitypes.RequestEndBlock{Height: r.Height + 1})
			var parts [][]byte
			for _, u := range resp.ValidatorUpdates {
				bz, _ := u.Marshal()
				parts = append(parts, bz)
			}
			r.LastUpdates = resp.ValidatorUpdates
			out = dig(parts...)
		case "commit":
			resp := r.App.Core.Commit()
			r.Height++
			r.InBlock = false
			out = hex.EncodeToString(resp.Data)
		case "check":
			resp := r.App.Core.CheckTx(abcitypes.RequestCheckTx{Tx: unhex(op.Tx), Type: op.checkType()})
			out = fmt.Sprint(resp.Code)
		case "query":
			SetStoreHeight(r.Height)
			resp := r.App.Core.Query(abcitypes.RequestQuery{Path: op.Path, Data: unhex(op.Data), Height: op.QH})
			out = dig([]byte(fmt.Sprint(resp.Code)), resp.Value)
		case "info":
			resp := r.App.Core.Info(abcitypes.RequestInfo{})
			out = fmt.Sprintf("%d/%x", resp.LastBlockHeight, resp.LastBlockAppHash)
		case "restart":
			ev := r.Restart()
			if resp, ok := ev["resp"].(J); ok {
				out = fmt.Sprintf("restart@%v", resp["h"])
			} else {
				out = "restart failed"
			}
			// the hash the restarted node reports, raw
			info := r.App.Core.Info(abcitypes.RequestInfo{})
			out = fmt.Sprintf("%d/%x", info.LastBlockHeight, info.LastBlockAppHash)
		}
	})
	if pm != "" {
		if op.Kind != "check" && op.Kind != "query" {
			r.Dead = op.Kind + ": " + pm
		}
		return "PANIC:" + pm
	}
	return out
}

// Variant is a base scenario with extra ops for replica B.
type Variant struct {
	Desc  string
	Sc    *Scenario
	Class string // kind of injected call and kind of gap (for stratified sampling)
	Hot   int    // 2: the gap belongs to a block whose end hands new parameters over (or to the block after it); 1: stages something else
	Edge  bool   // the gap is at a phase boundary of the block (not between two DeliverTx calls)
	Block int64
	Map   []int // Map[i] = index in the base scenario of op i, or -1 for an injected op
}

// withInjection returns a copy of base with ops inserted before base op index at.
func withInjection(base *Scenario, at int, desc string, inj ...Op) *Variant {
	v := &Variant{Desc: desc, Sc: &Scenario{Genesis: base.Genesis, NAccts: base.NAccts}}
	for i := 0; i <= len(base.Ops); i++ {
		if i == at {
			for _, op := range inj {
				op.Only = "B"
				v.Sc.Ops = append(v.Sc.Ops, op)
				v.Map = append(v.Map, -1)
			}
		}
		if i < len(base.Ops) {
			v.Sc.Ops = append(v.Sc.Ops, base.Ops[i])
			v.Map = append(v.Map, i)
		}
	}
	return v
}

// Pair is one compared consensus call.
func pairEvents(prop string, k int, v *Variant, a, b []*Output, emit func(J)) {
	emit(J{"ev": "Variant", "prop": prop, "k": k, "desc": v.Desc})
	for i, bi := range b {
		if bi == nil {
			continue
		}
		base := v.Map[i]
		if base < 0 {
			emit(J{"ev": "Inject", "k": k, "kind": bi.Kind, "out": bi.Out})
			continue
		}
		ai := a[base]
		if ai == nil {
			continue
		}
		emit(J{"ev": "Pair", "k": k, "i": base, "kind": bi.Kind, "aout": ai.Out, "bout": bi.Out, "astate": ai.State, "bstate": bi.State})
	}
}

// withInjections is withInjection for several gaps at once: at[gap] = ops injected before base op `gap`.
func withInjections(base *Scenario, desc string, at map[int][]Op) *Variant {
	v := &Variant{Desc: desc, Sc: &Scenario{Genesis: base.Genesis, NAccts: base.NAccts}}
	for i := 0; i <= len(base.Ops); i++ {
		for _, op := range at[i] {
			op.Only = "B"
			v.Sc.Ops = append(v.Sc.Ops, op)
			v.Map = append(v.Map, -1)
		}
		if i < len(base.Ops) {
			v.Sc.Ops = append(v.Sc.Ops, base.Ops[i])
			v.Map = append(v.Map, i)
		}
	}
	return v
}

// mempoolSessions: for every transaction of a block, mempool traffic that follows it through the block - the same
// transaction checked before the block starts (the mempool has seen it), and, right after it was delivered, a check of
// the sender's NEXT transaction, or of a transfer TO the sender: the mempool and the block then work on the same
// account / delegatee / proposal at the same time.
func mempoolSessions(base *Scenario, begin, end int, b *Builder, view *View, h int64) []*Variant {
	var out []*Variant
	kr := b.KR
	chain := base.Genesis.ChainID
	price := u256(govLimbs(view.Gov, "gasPrice"))
	gas := govLimbs(view.Gov, "minTrxGas").Uint64()
	mkv0 := func(desc string, at map[int][]Op) {
		v := withInjections(base, fmt.Sprintf("block %d: session %s", h, desc), at)
		v.Class, v.Hot, v.Edge, v.Block = "session:"+desc, 3, true, h
		out = append(out, v)
	}
	// validators the block's header reports as absent or accuses: BeginBlock looks their records up and rewrites them -
	// mempool traffic about exactly those validators before and right after BeginBlock
	if hd := base.Ops[begin].Hdr; hd != nil {
		named := map[string]bool{}
		for _, vt := range hd.Votes {
			if !vt.Signed {
				named[vt.Addr] = true
			}
		}
		for _, evd := range hd.Evidence {
			named[evd.Addr] = true
		}
		var names []string
		for a := range named {
			names = append(names, a)
		}
		sort.Strings(names)
		for _, a := range names {
			vi := kr.Index(unhex(a))
			if vi <= 0 {
				continue
			}
			n4 := uint64(view.Accts["a4"].Nonce)
			stake := Op{Kind: "check", Tx: HexTx(b.Sign(newStake(kr, 4, vi, n4, gas, price, "2e18"), 4, chain)), Tag: "session:stake-to-named-validator"}
			mkv0("delegation to an absent / accused validator before BeginBlock", map[int][]Op{begin: {stake}})
			mkv0("delegation to an absent / accused validator after BeginBlock", map[int][]Op{begin + 1: {stake}})
			if d, ok := view.Delegs[fmt.Sprintf("a%d", vi)]; ok && len(d.Stakes) > 0 {
				st := d.Stakes[len(d.Stakes)-1]
				oi := 0
				fmt.Sscanf(st.From, "a%d", &oi)
				if oi > 0 {
					un := Op{Kind: "check", Tx: HexTx(b.Sign(newUnstake(kr, oi, vi, uint64(view.Accts[st.From].Nonce), gas, price, kr.HashOf(st.ID)), oi, chain)),
						Tag: "session:unstake-from-named-validator"}
					mkv0("un-staking from an absent / accused validator before BeginBlock", map[int][]Op{begin: {un}})
				}
			}
		}
	}
	// transactions that stay in the mempool: checked before the block, re-checked (CheckTx of type Recheck, which is what
	// the mempool sends for every waiting transaction) after the block's commit.  Receivers that do not exist yet.
	if end+1 < len(base.Ops) {
		for k, from := range []int{4, 1} {
			n := uint64(view.Accts[fmt.Sprintf("a%d", from)].Nonce)
			var bz []byte
			if k == 0 {
				bz = b.Sign(newTransfer(kr, from, base.NAccts+7, n, gas, price, "1e15"), from, chain)
			} else {
				bz = b.Sign(newProposal(kr, from, n, gas, price, h+3, 3, h+9), from, chain)
			}
			first := Op{Kind: "check", Tx: HexTx(bz), Tag: "session:waiting"}
			again := Op{Kind: "check", Tx: HexTx(bz), Tag: "session:waiting-rechecked", Recheck: true}
			mkv0([]string{"a waiting transfer to a new address", "a waiting proposal"}[k]+" is re-checked after the commit", map[int][]Op{begin: {first}, end + 1: {again}})
		}
	}
	for i := begin + 1; i < end && i < len(base.Ops); i++ {
		op := base.Ops[i]
		if op.Kind != "deliver" {
			continue
		}
		tx := &rctypes.Trx{}
		bad := false
		if pm := Call(func() {
			if e := tx.Decode(unhex(op.Tx)); e != nil {
				bad = true
			}
		}); pm != "" || bad {
			continue
		}
		from := kr.Index(tx.From)
		if from <= 0 {
			continue
		}
		seen := Op{Kind: "check", Tx: op.Tx, Tag: "session:block-tx-seen-before"}
		next := Op{Kind: "check", Tx: HexTx(b.Sign(newTransfer(kr, from, 6, tx.Nonce+1, gas, price, "1e15"), from, chain)), Tag: "session:sender-next"}
		other := 4
		if from == 4 {
			other = 5
		}
		ononce := uint64(view.Accts[fmt.Sprintf("a%d", other)].Nonce)
		toSender := Op{Kind: "check", Tx: HexTx(b.Sign(newTransfer(kr, other, from, ononce, gas, price, "1e15"), other, chain)), Tag: "session:transfer-to-sender"}
		mkv := func(desc string, at map[int][]Op) {
			v := withInjections(base, fmt.Sprintf("block %d: session %s around op %d", h, desc, i), at)
			v.Class, v.Hot, v.Edge, v.Block = "session:"+desc, 3, true, h
			out = append(out, v)
		}
		mkv("seen-before + sender's next after delivery", map[int][]Op{begin: {seen}, i + 1: {next}})
		mkv("seen-before + transfer to the sender after delivery", map[int][]Op{begin: {seen}, i + 1: {toSender}})
		mkv("seen in block + sender's next before commit", map[int][]Op{begin + 1: {seen}, end: {next}})
		mkv("sender's next after delivery only", map[int][]Op{i + 1: {next}})
	}
	return out
}

// ClockProbeOffsets: distances (ms) of a probe transaction's creation time from the moment it is signed: half a second
// beyond round thresholds into the future, and half a second short of them into the past.
func ClockProbeOffsets() []int64 {
	var out []int64
	for _, t := range []int64{0, 1, 2, 5, 10, 15, 30, 60, 120, 300, 600, 3600} {
		out = append(out, t*1000+500, -t*1000+500)
	}
	return out
}

// RefreshClockProbes re-signs the probe transactions of a scenario (tag "clockprobe:<ms>") with creation times relative
// to now.  Called right before the first replica of a pair executes the scenario.
func RefreshClockProbes(sc *Scenario) int {
	kr := NewKeyring(sc.Genesis.Seed, sc.NAccts)
	b := &Builder{KR: kr, ChainID: sc.Genesis.ChainID}
	n := 0
	now := time.Now()
	for i := range sc.Ops {
		op := &sc.Ops[i]
		if op.Kind != "deliver" || !strings.HasPrefix(op.Tag, "clockprobe:") {
			continue
		}
		var ms int64
		fmt.Sscanf(op.Tag, "clockprobe:%d", &ms)
		tx := &rctypes.Trx{}
		if tx.Decode(unhex(op.Tx)) != nil {
			continue
		}
		signer := kr.Index(tx.From)
		if signer <= 0 {
			continue
		}
		op.Tx = HexTx(b.SignAt(tx, signer, sc.Genesis.ChainID, now.Add(time.Duration(ms)*time.Millisecond).UnixNano()))
		n++
	}
	return n
}

// VariantFile is a self-contained replay of one (history, variant) pair: the base history replica A
// executes, the variant replica B executes, and the correspondence of their ops.
type VariantFile struct {
	Prop    string    `json:"prop"`
	Desc    string    `json:"desc"`
	How     string    `json:"how"` // "process": B runs in another OS process; "inproc" otherwise
	Base    *Scenario `json:"base"`
	Variant *Scenario `json:"variant"`
	Map     []int     `json:"map"`
}

// Differs reports whether any compared consensus call of the pair differs (used only to decide which
// variants are worth saving as replay files; the verdict is ReplicasTrace.tla's).
func (v *Variant) Differs(a, b []*Output) bool {
	for i, bi := range b {
		if bi == nil || v.Map[i] < 0 || a[v.Map[i]] == nil {
			continue
		}
		ai := a[v.Map[i]]
		if ai.State != bi.State || (bi.Kind != "check" && bi.Kind != "query" && ai.Out != bi.Out) {
			return true
		}
	}
	return false
}

// SaveVariant writes dir/variant-<k>.json.
func SaveVariant(dir, prop string, k int, how string, base *Scenario, v *Variant) {
	if dir == "" {
		return
	}
	bz, _ := json.Marshal(&VariantFile{Prop: prop, Desc: v.Desc, How: how, Base: base, Variant: v.Sc, Map: v.Map})
	_ = os.WriteFile(fmt.Sprintf("%s/variant-%d.json", dir, k), bz, 0o644)
}

// LoadVariant reads a replay file written by SaveVariant.
func LoadVariant(path string) (*VariantFile, error) {
	bz, err := os.ReadFile(path)
	if err != nil {
		return nil, err
	}
	vf := &VariantFile{}
	if err := json.Unmarshal(bz, vf); err != nil {
		return nil, err
	}
	if vf.Base == nil || vf.Variant == nil || len(vf.Map) != len(vf.Variant.Ops) {
		return nil, fmt.Errorf("%s is not a variant replay file", path)
	}
	return vf, nil
}

// InjectionPool builds the CheckTx / Query ops to inject into block `blockOps`
// (indices of a block's ops in base), given a builder on the base genesis.
func InjectionPool(base *Scenario, begin int, b *Builder, view *View, h int64, rng *rand.Rand, full bool) []Op {
	var pool []Op
	kr := b.KR
	chain := base.Genesis.ChainID
	price := u256(govLimbs(view.Gov, "gasPrice"))
	gas := govLimbs(view.Gov, "minTrxGas").Uint64()
	// duplicates of the block's own transactions
	for i := begin + 1; i < len(base.Ops) && base.Ops[i].Kind == "deliver"; i++ {
		pool = append(pool, Op{Kind: "check", Tx: base.Ops[i].Tx, Tag: "dup-of-block-tx"})
	}
	nonce := func(a int) uint64 { return uint64(view.Accts[fmt.Sprintf("a%d", a)].Nonce) }
	mk := func(tag string, bz []byte) { pool = append(pool, Op{Kind: "check", Tx: HexTx(bz), Tag: tag}) }
	// every delegatee: staking and unstaking against it (mutates the stake limiter on the check path)
	var dnames []string
	for n := range view.Delegs {
		dnames = append(dnames, n)
	}
	sort.Strings(dnames)
	for _, dn := range dnames {
		di := 0
		fmt.Sscanf(dn, "a%d", &di)
		if di == 0 {
			continue
		}
		for _, from := range []int{4, 5, di} {
			tx := newStake(kr, from, di, nonce(from), gas, price, "2e18")
			mk("stake->"+dn, b.Sign(tx, from, chain))
			pool[len(pool)-1].Self = from == di
		}
		for _, st := range view.Delegs[dn].Stakes {
			oi := 0
			fmt.Sscanf(st.From, "a%d", &oi)
			if oi == 0 {
				continue
			}
			tx := newUnstake(kr, oi, di, nonce(oi), gas, price, kr.HashOf(st.ID))
			mk("unstake "+st.ID, b.Sign(tx, oi, chain))
			if !full {
				break
			}
		}
	}
	for _, from := range []int{1, 4, 5} {
		mk("next transfer", b.Sign(newTransfer(kr, from, 6, nonce(from), gas, price, "1e18"), from, chain))
		mk("withdraw", b.Sign(newWithdraw(kr, from, nonce(from), gas, price, "1"), from, chain))
		mk("setdoc", b.Sign(newSetDoc(kr, from, nonce(from), gas, price), from, chain))
	}
	mk("proposal", b.Sign(newProposal(kr, 1, nonce(1), gas, price, h+2, 3, h+8), 1, chain))
	var pids []string
	for id := range view.Props {
		pids = append(pids, id)
	}
	sort.Strings(pids)
	for _, id := range pids {
		mk("vote", b.Sign(newVote(kr, 2, nonce(2), gas, price, kr.HashOf(id), 0), 2, chain))
	}
	mk("garbage", randBytes(rng, 40))
	pool = append(pool, Op{Kind: "check", Tx: "", Tag: "empty"})
	// re-checks (type Recheck): of a block transaction, of a transfer to an address that does not exist
	for i := begin + 1; i < len(base.Ops) && base.Ops[i].Kind == "deliver"; i++ {
		pool = append(pool, Op{Kind: "check", Tx: base.Ops[i].Tx, Tag: "recheck-of-block-tx", Recheck: true})
		break
	}
	mk("recheck transfer to a new address", b.Sign(newTransfer(kr, 5, base.NAccts+8, nonce(5), gas, price, "1e15"), 5, chain))
	pool[len(pool)-1].Recheck = true
	// queries
	// queries: every path in both tiers (a read-only handler that writes is as likely in one path as in another)
	// heights: latest (0 and by number), the one before (what it holds may differ from the latest), and in the full pool
	// also older ones, the executing one and heights that do not exist
	qhs := []int64{0, h - 1, h - 2}
	if full {
		qhs = []int64{0, h - 1, h - 2, h - 3, 1, h, h + 1, -1}
	}
	for _, qh := range qhs {
		if qh < -1 || (qh == 1 && h <= 4) {
			continue
		}
		pool = append(pool, Op{Kind: "query", Path: "account", Data: fmt.Sprintf("%x", kr.Addr(4)), QH: qh})
		pool = append(pool, Op{Kind: "query", Path: "delegatee", Data: fmt.Sprintf("%x", kr.Addr(1)), QH: qh})
		pool = append(pool, Op{Kind: "query", Path: "reward", Data: fmt.Sprintf("%x", kr.Addr(1)), QH: qh})
		pool = append(pool, Op{Kind: "query", Path: "stakes", Data: fmt.Sprintf("%x", kr.Addr(4)), QH: qh})
		pool = append(pool, Op{Kind: "query", Path: "proposal", QH: qh})
		pool = append(pool, Op{Kind: "query", Path: "gov_params", QH: qh})
		pool = append(pool, Op{Kind: "query", Path: "stakes/total_power", QH: qh})
		pool = append(pool, Op{Kind: "query", Path: "stakes/voting_power", QH: qh})
		pool = append(pool, Op{Kind: "query", Path: "vm_call", Data: fmt.Sprintf("%x%x", kr.Addr(4), kr.Addr(5)), QH: qh})
	}
	return pool
}

// tempRoot creates a scratch directory for one replica run.
func tempRoot(tmp, prefix string) string {
	d, err := os.MkdirTemp(tmp, prefix)
	if err != nil {
		panic(err)
	}
	return d
}

func newTransfer(kr *Keyring, from, to int, nonce, gas uint64, price *uint256.Int, amt string) *rctypes.Trx {
	return web3.NewTrxTransfer(kr.Addr(from), kr.Addr(to), nonce, gas, price, Amt(amt))
}
func newStake(kr *Keyring, from, to int, nonce, gas uint64, price *uint256.Int, amt string) *rctypes.Trx {
	return web3.NewTrxStaking(kr.Addr(from), kr.Addr(to), nonce, gas, price, Amt(amt))
}
func newUnstake(kr *Keyring, from, to int, nonce, gas uint64, price *uint256.Int, id []byte) *rctypes.Trx {
	return web3.NewTrxUnstaking(kr.Addr(from), kr.Addr(to), nonce, gas, price, id)
}
func newWithdraw(kr *Keyring, from int, nonce, gas uint64, price *uint256.Int, amt string) *rctypes.Trx {
	return web3.NewTrxWithdraw(kr.Addr(from), kr.Addr(from), nonce, gas, price, Amt(amt))
}
func newSetDoc(kr *Keyring, from int, nonce, gas uint64, price *uint256.Int) *rctypes.Trx {
	return web3.NewTrxSetDoc(kr.Addr(from), nonce, gas, price, "injected", "injected")
}
func newProposal(kr *Keyring, from int, nonce, gas uint64, price *uint256.Int, start, period, apply int64) *rctypes.Trx {
	return web3.NewTrxProposal(kr.Addr(from), types.ZeroAddress(), nonce, gas, price, "injected", start, period, apply, 0x0101, []byte(`{"gasPrice":"33"}`))
}
func newVote(kr *Keyring, from int, nonce, gas uint64, price *uint256.Int, id []byte, choice int32) *rctypes.Trx {
	return web3.NewTrxVoting(kr.Addr(from), types.ZeroAddress(), nonce, gas, price, id, choice)
}

// Identity is the variant that runs the base scenario unchanged.
func Identity(base *Scenario, desc string) *Variant {
	v := &Variant{Desc: desc, Sc: base}
	for i := range base.Ops {
		v.Map = append(v.Map, i)
	}
	return v
}

// PairEvents emits the joint events of one variant and returns the number of compared calls.
func PairEvents(prop string, k int, v *Variant, a, b []*Output, emit func(J)) int {
	n := 0
	pairEvents(prop, k, v, a, b, func(ev J) {
		if ev["ev"] == "Pair" {
			n++
		}
		emit(ev)
	})
	return n
}

// boundaries returns the op indices right after each commit.
func boundaries(base *Scenario) []int {
	var out []int
	for i, op := range base.Ops {
		if op.Kind == "commit" {
			out = append(out, i+1)
		}
	}
	return out
}

func withRestarts(base *Scenario, at map[int]bool, desc string) *Variant {
	v := &Variant{Desc: desc, Sc: &Scenario{Genesis: base.Genesis, NAccts: base.NAccts}}
	for i := 0; i <= len(base.Ops); i++ {
		if at[i] {
			v.Sc.Ops = append(v.Sc.Ops, Op{Kind: "restart", Only: "B"})
			v.Map = append(v.Map, -1)
		}
		if i < len(base.Ops) {
			if base.Ops[i].Kind == "restart" {
				continue // the base's own restarts are replaced
			}
			v.Sc.Ops = append(v.Sc.Ops, base.Ops[i])
			v.Map = append(v.Map, i)
		}
	}
	return v
}

// RestartVariant restarts replica B after each commit with probability p.
func RestartVariant(base *Scenario, rng *rand.Rand, p float64, desc string) *Variant {
	at := map[int]bool{}
	for _, b := range boundaries(base) {
		if rng.Float64() < p {
			at[b] = true
		}
	}
	return withRestarts(base, at, desc)
}

// EveryNthRestart restarts replica B after every n-th commit (starting with the `first`-th).
func EveryNthRestart(base *Scenario, n, first int, desc string) *Variant {
	at := map[int]bool{}
	for i, b := range boundaries(base) {
		if i >= first && (i-first)%n == 0 {
			at[b] = true
		}
	}
	return withRestarts(base, at, desc)
}

// RestartVariants: every single boundary; with full also every pair of boundaries of short
// histories and random subsets.
func RestartVariants(base *Scenario, rng *rand.Rand, budget int, full bool) []*Variant {
	bs := boundaries(base)
	var out []*Variant
	for _, b := range bs {
		out = append(out, withRestarts(base, map[int]bool{b: true}, fmt.Sprintf("restart after op %d", b)))
	}
	if full {
		for i := 0; i < len(bs); i++ {
			for j := i + 1; j < len(bs) && j <= i+3; j++ {
				out = append(out, withRestarts(base, map[int]bool{bs[i]: true, bs[j]: true}, fmt.Sprintf("restarts after ops %d and %d", bs[i], bs[j])))
			}
		}
		for n := 0; n < 10; n++ {
			out = append(out, RestartVariant(base, rng, 0.4, "random restart subset"))
		}
		// every boundary
		all := map[int]bool{}
		for _, b := range bs {
			all[b] = true
		}
		out = append(out, withRestarts(base, all, "restart after every block"))
	}
	if len(out) > budget {
		rng.Shuffle(len(out), func(i, j int) { out[i], out[j] = out[j], out[i] })
		out = out[:budget]
	}
	return out
}

// IsolationVariants replays the base scenario once with projections (to know the state at
// each block start), and returns one variant per (gap, pool element) of the blocks, up to budget.
func IsolationVariants(base *Scenario, rootA string, rng *rand.Rand, budget int, full bool) ([]*Variant, []*Output, error) {
	views := map[int]*View{} // op index -> view after that op
	rootP := tempRoot(rootA, "proj-")
	var genesisView *View
	// "hot" blocks: the end of the block stages something for the commit or for the consensus engine (parameters
	// adopted, proposals settled, validator updates, stakes refunded) - the gaps of such a block and of the next one
	// are where a mempool check or a query can meet staged state
	hotH := map[int64]int{} // 2: the end of the block hands new governance parameters over to the commit; 1: stages something else
	prevSig := ""
	rp, err := Replay(base, "A", rootP, func(ev J) {
		if post, ok := ev["post"].(J); ok {
			if ev["ev"] == "Genesis" {
				genesisView = ToView(post)
			} else if op, ok := ev["op"].(int); ok {
				views[op] = ToView(post)
			}
			if ev["ev"] == "EndBlock" {
				h := int64(0)
				if hv, ok := post["h"].(int); ok {
					h = int64(hv)
				}
				pend, _ := post["govPending"].(J)
				some, _ := pend["some"].(bool)
				nups := 0
				if resp, ok := ev["resp"].(J); ok {
					if ups, ok := resp["valUpdates"].([]J); ok {
						nups = len(ups)
					}
				}
				np, _ := post["props"].(J)
				nf, _ := post["fprops"].(J)
				fz, _ := post["frozen"].([]J)
				sig := fmt.Sprintf("%d/%d/%d", len(np), len(nf), len(fz))
				if some {
					hotH[h], hotH[h+1] = 2, 2
				} else if nups > 0 || (prevSig != "" && sig != prevSig) {
					for _, x := range []int64{h, h + 1} {
						if hotH[x] < 1 {
							hotH[x] = 1
						}
					}
				}
				prevSig = sig
			}
		}
	}, ProjOpts{}, false)
	if err != nil {
		return nil, nil, err
	}
	rp.Close()
	b := &Builder{KR: rp.KR, ChainID: base.Genesis.ChainID}
	a, _, err := RunOutputs(base, "A", tempRoot(rootA, "outA-"), true)
	if err != nil {
		return nil, nil, err
	}
	var out []*Variant
	for i, op := range base.Ops {
		if op.Kind != "begin" {
			continue
		}
		view := genesisView
		if i > 0 && views[i-1] != nil {
			view = views[i-1]
		}
		if view == nil {
			continue
		}
		h := op.Hdr.H
		pool := InjectionPool(base, i, b, view, h, rng, full)
		// the gaps of this block: before BeginBlock, before each DeliverTx, before EndBlock, before Commit, after Commit
		end := i
		for end < len(base.Ops) && base.Ops[end].Kind != "commit" {
			end++
		}
		for gap := i; gap <= end+1 && gap <= len(base.Ops); gap++ {
			for pi, p := range pool {
				v := withInjection(base, gap, fmt.Sprintf("block %d: %s %s %s before op %d", h, p.Kind, p.Tag, p.Path, gap), p)
				gk := "mid-block"
				switch {
				case gap == i:
					gk = "before-begin"
				case gap == end:
					gk = "before-commit"
				case gap == end+1:
					gk = "after-commit"
				case gap == end-1:
					gk = "before-end"
				}
				// category of the injected call: what it is, not whom it names
				cat := p.Kind + ":" + p.Path
				if p.Kind == "query" && p.QH > 0 && p.QH < h-1 {
					cat += ":past" // a height before the latest committed one
				}
				if p.Kind == "check" {
					cat = "check:" + p.Tag
					if i := strings.Index(p.Tag, "->"); i > 0 {
						cat = "check:" + p.Tag[:i]
					} else if strings.HasPrefix(p.Tag, "unstake ") {
						cat = "check:unstake"
					}
					if p.Self {
						cat += ":self"
					}
				}
				v.Class = cat + "@" + gk
				v.Hot = hotH[h]
				v.Edge = gk != "mid-block"
				v.Block = h
				out = append(out, v)
				_ = pi
			}
		}
		out = append(out, mempoolSessions(base, i, end, b, view, h)...)
		if full && len(pool) > 1 {
			// ordered pairs at one gap
			for n := 0; n < 20; n++ {
				p1, p2 := pool[rng.Intn(len(pool))], pool[rng.Intn(len(pool))]
				gap := i + rng.Intn(end-i+2)
				v := withInjection(base, gap, fmt.Sprintf("block %d: pair %s/%s before op %d", h, p1.Tag+p1.Path, p2.Tag+p2.Path, gap), p1, p2)
				v.Class = "pair"
				out = append(out, v)
			}
		}
	}
	if len(out) > budget {
		// stratified: every kind of injected call (check of each tag, query of each path) is taken in turn, so that
		// a small budget still exercises each of them at some gap
		rng.Shuffle(len(out), func(i, j int) { out[i], out[j] = out[j], out[i] })
		pick := func(cands []*Variant, n int) []*Variant {
			groups := map[string][]*Variant{}
			var keys []string
			for _, v := range cands {
				k := v.Class
				if _, ok := groups[k]; !ok {
					keys = append(keys, k)
				}
				groups[k] = append(groups[k], v)
			}
			sort.Strings(keys)
			rng.Shuffle(len(keys), func(i, j int) { keys[i], keys[j] = keys[j], keys[i] })
			var sel []*Variant
			for len(sel) < n {
				took := false
				for _, k := range keys {
					if len(groups[k]) > 0 && len(sel) < n {
						sel = append(sel, groups[k][0])
						groups[k] = groups[k][1:]
						took = true
					}
				}
				if !took {
					break
				}
			}
			return sel
		}
		var top, hot, cold, sess []*Variant
		seenTop := map[string]bool{}
		for _, v := range out {
			switch {
			case v.Hot == 3:
				sess = append(sess, v)
			case v.Hot == 2 && v.Edge:
				// parameter hand-over: every category of call at every phase boundary of that block and the next
				k := fmt.Sprintf("%s#%d", v.Class, v.Block)
				if !seenTop[k] {
					seenTop[k] = true
					top = append(top, v)
				} else {
					hot = append(hot, v)
				}
			case v.Hot >= 1:
				hot = append(hot, v)
			default:
				cold = append(cold, v)
			}
		}
		// mempool sessions around the block's own transactions: a fifth of the budget
		sel := pick(sess, budget/5)
		sel = append(sel, pick(top, budget/2)...)
		// then up to two thirds of the budget for the blocks that stage something, the rest elsewhere
		sel = append(sel, pick(hot, budget*2/3-len(sel)/2)...)
		if len(sel) > budget {
			sel = sel[:budget]
		}
		sel = append(sel, pick(cold, budget-len(sel))...)
		if len(sel) < budget {
			taken := map[*Variant]bool{}
			for _, v := range sel {
				taken[v] = true
			}
			var rest []*Variant
			for _, v := range out {
				if !taken[v] {
					rest = append(rest, v)
				}
			}
			sel = append(sel, pick(rest, budget-len(sel))...)
		}
		out = sel
	}
	return out, a, nil
}
