package appdrv

import (
	"crypto/sha256"
	"encoding/binary"
	"encoding/hex"
	"fmt"
	"math/big"
	"sort"
	"strings"

	"github.com/holiman/uint256"
	"github.com/rigochain/rigo-go/libs/web3"
	"github.com/rigochain/rigo-go/types"
)

func mustU256(dec string) *uint256.Int {
	v, err := uint256.FromDecimal(dec)
	if err != nil {
		panic(fmt.Sprintf("bad decimal %q: %v", dec, err))
	}
	return v
}

// Keyring holds deterministic keys a1..aN and renames addresses and hashes
// to short stable names for the traces.
type Keyring struct {
	seed    int64
	wallets []*web3.Wallet
	names   map[string]string // hex address -> name
	extra   int
	hashes  map[string]string // hex hash -> token
	// Raw: name hashes and unknown addresses by their bytes instead of by order of first
	// appearance, so that values of different replicas / processes are comparable
	Raw bool
}

// RawView returns a keyring that shares the keys but renames nothing by appearance order.
func (kr *Keyring) RawView() *Keyring {
	names := map[string]string{}
	for k, n := range kr.names {
		if len(n) > 0 && (n[0] == 'a' || n == "zero") {
			names[k] = n
		}
	}
	return &Keyring{seed: kr.seed, wallets: kr.wallets, names: names, hashes: map[string]string{}, Raw: true}
}

func NewKeyring(seed int64, n int) *Keyring {
	kr := &Keyring{seed: seed, names: map[string]string{}, hashes: map[string]string{}}
	for i := 1; i <= n; i++ {
		kr.grow()
	}
	kr.names[hex.EncodeToString(types.ZeroAddress())] = "zero"
	return kr
}

func (kr *Keyring) grow() {
	i := len(kr.wallets) + 1
	var buf [16]byte
	binary.BigEndian.PutUint64(buf[:8], uint64(kr.seed))
	binary.BigEndian.PutUint64(buf[8:], uint64(i))
	h := sha256.Sum256(append([]byte("verif-key"), buf[:]...))
	w := web3.ImportKey(h[:], nil)
	if err := w.Unlock(nil); err != nil {
		panic(err)
	}
	kr.wallets = append(kr.wallets, w)
	kr.names[hex.EncodeToString(w.Address())] = fmt.Sprintf("a%d", i)
}

func (kr *Keyring) N() int { return len(kr.wallets) }

// Wallet returns the wallet of account i (1-based), creating keys on demand.
func (kr *Keyring) Wallet(i int) *web3.Wallet {
	for len(kr.wallets) < i {
		kr.grow()
	}
	return kr.wallets[i-1]
}

func (kr *Keyring) Addr(i int) types.Address { return kr.Wallet(i).Address() }
func (kr *Keyring) AddrHex(i int) string     { return hex.EncodeToString(kr.Addr(i)) }

// Index returns the 1-based account index of an address, or 0.
func (kr *Keyring) Index(addr []byte) int {
	n := kr.names[hex.EncodeToString(addr)]
	if strings.HasPrefix(n, "a") {
		var i int
		fmt.Sscanf(n, "a%d", &i)
		return i
	}
	return 0
}

// Name renames an address: a<i> for keyring accounts, "zero", else x<k> by first appearance.
func (kr *Keyring) Name(addr []byte) string {
	if len(addr) == 0 {
		return "none"
	}
	k := hex.EncodeToString(addr)
	if n, ok := kr.names[k]; ok {
		return n
	}
	if kr.Raw {
		if len(k) > 16 {
			return "x" + k[:16]
		}
		return "x" + k
	}
	kr.extra++
	n := fmt.Sprintf("x%d", kr.extra)
	if len(addr) != 20 {
		n = fmt.Sprintf("bad%d_%d", len(addr), kr.extra)
	}
	kr.names[k] = n
	return n
}

// NameAddr names an address field the way the ledgers identify it: by its 32-byte ledger key (the address right-padded
// with zeros or cut to 32 bytes).  A field that is not 20 bytes long but has the key of a 20-byte address is that address.
func (kr *Keyring) NameAddr(addr []byte) string {
	if len(addr) == 20 || len(addr) == 0 {
		return kr.Name(addr)
	}
	var k [32]byte
	copy(k[:], addr)
	for _, b := range k[20:] {
		if b != 0 {
			return kr.Name(k[:])
		}
	}
	return kr.Name(k[:20])
}

// NameKey32 renames a 32-byte ledger key that holds a right-padded 20-byte address.
func (kr *Keyring) NameKey32(k [32]byte) string { return kr.Name(k[:20]) }

// Tok renames a hash to t<n> by first appearance (the all-zero hash is "t0").
func (kr *Keyring) Tok(h []byte) string {
	if len(h) == 0 {
		return "tnil"
	}
	allZero := true
	for _, b := range h {
		if b != 0 {
			allZero = false
		}
	}
	if allZero {
		return "t0"
	}
	k := hex.EncodeToString(h)
	if kr.Raw {
		if len(k) > 20 {
			return "h" + k[:20]
		}
		return "h" + k
	}
	if t, ok := kr.hashes[k]; ok {
		return t
	}
	t := fmt.Sprintf("t%d", len(kr.hashes)+1)
	kr.hashes[k] = t
	return t
}

// HashOf returns the bytes behind a hash token (nil if unknown).
func (kr *Keyring) HashOf(tok string) []byte {
	if tok == "t0" {
		return make([]byte, 32)
	}
	for k, t := range kr.hashes {
		if t == tok {
			return unhex(k)
		}
	}
	return nil
}

// AddrOf returns the address behind a name (nil if unknown).
func (kr *Keyring) AddrOf(name string) []byte {
	for k, n := range kr.names {
		if n == name {
			return unhex(k)
		}
	}
	return nil
}

// ByteRank returns, for the keyring accounts, their rank in ascending byte order of the address.
func (kr *Keyring) ByteRank() map[string]int {
	type p struct {
		n string
		a string
	}
	var ps []p
	for i := 1; i <= kr.N(); i++ {
		ps = append(ps, p{fmt.Sprintf("a%d", i), kr.AddrHex(i)})
	}
	sort.Slice(ps, func(i, j int) bool { return ps[i].a < ps[j].a })
	out := map[string]int{}
	for i, x := range ps {
		out[x.n] = i + 1
	}
	return out
}

// Limbs converts an amount to little-endian base-1000 limbs (canonical: no
// leading zero limb; zero is the empty list).
func Limbs(v *uint256.Int) []int {
	if v == nil {
		return []int{}
	}
	return LimbsBig(v.ToBig())
}

var thousand = big.NewInt(1000)

func LimbsBig(b *big.Int) []int {
	out := []int{}
	x := new(big.Int).Set(b)
	r := new(big.Int)
	for x.Sign() > 0 {
		x.DivMod(x, thousand, r)
		out = append(out, int(r.Int64()))
	}
	return out
}

// LimbsU64 converts a uint64 (may exceed TLC's 32-bit integers) to limbs.
func LimbsU64(v uint64) []int { return LimbsBig(new(big.Int).SetUint64(v)) }
