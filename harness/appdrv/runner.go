package appdrv

import (
	"bufio"
	"encoding/json"
	"fmt"
	"io"
	"math/big"
	"os"
	"sort"
)

// Family returns one of the genesis families.
func Family(i int, seed int64) (*GenesisSpec, int) {
	g := &GenesisSpec{ChainID: "verif-chain", Seed: seed, Gov: DefaultGov()}
	bal := func(n int, each string) {
		for j := 0; j < n; j++ {
			g.Balances = append(g.Balances, each)
		}
	}
	switch i % 5 {
	case 0: // three equal validators
		bal(6, "1000000000000000000000")
		g.Validators = []GenVal{{1, 10}, {2, 10}, {3, 10}}
		return g, 6
	case 1: // a single validator
		bal(7, "500000000000000000000")
		g.Validators = []GenVal{{1, 20}}
		g.Gov["maxValidatorCnt"] = "3"
		return g, 7
	case 2: // five unequal validators, five seats, stake limiter active
		bal(9, "2000000000000000000000")
		g.Validators = []GenVal{{1, 5}, {2, 8}, {3, 10}, {4, 12}, {5, 20}}
		g.Gov["maxValidatorCnt"] = "5"
		g.Gov["lazyRewardBlocks"] = "2"
		g.Gov["slashRatio"] = "34"
		g.Gov["signedBlocksWindow"] = "3"
		return g, 9
	case 4: // tiny validators: powers at the boundaries of the integer divisions (slashing 50 % of power 1 is 0), small stakes
		bal(8, "1000000000000000000000")
		g.Validators = []GenVal{{1, 1}, {2, 1}, {3, 2}, {4, 3}}
		g.Gov["maxValidatorCnt"] = "5"
		g.Gov["minValidatorStake"] = "1000000000000000000"
		return g, 8
	default: // four validators, larger windows, different prices
		bal(8, "3000000000000000000000")
		g.Validators = []GenVal{{1, 100}, {2, 100}, {3, 100}, {4, 100}}
		g.Gov["maxValidatorCnt"] = "5"
		g.Gov["gasPrice"] = "250000000000"
		g.Gov["minTrxGas"] = "4000"
		g.Gov["lazyRewardBlocks"] = "5"
		g.Gov["rewardPerPower"] = "4756468797"
		g.Gov["maxIndividualStakeRatio"] = "40"
		g.Gov["maxUpdatableStakeRatio"] = "33"
		return g, 8
	}
}

// BigUnitFamily: voting powers of the order of 10^17 (the consensus engine accepts a total of 2^60 - 1, about 1.15 x 10^18):
// three validators of 196608, 98304 and 294912 x 10^12 (multiples of 3 x 2^15 units, so that halves and two-thirds stay whole
// numbers of units), balances of 3 x 10^36 (total supply far below 2^128).  Powers are
// rendered in units of 10^12 (PowerUnit); every amount bonded in such a history must be a multiple of 10^30.
func BigUnitFamily(seed int64) (*GenesisSpec, int) {
	g := &GenesisSpec{ChainID: "verif-chain", Seed: seed, Gov: DefaultGov(), PowerUnit: 1000000000000}
	for j := 0; j < 7; j++ {
		g.Balances = append(g.Balances, "3000000000000000000000000000000000000")
	}
	u := g.PowerUnit
	g.Validators = []GenVal{{1, 196608 * u}, {2, 98304 * u}, {3, 294912 * u}}
	g.Gov["maxValidatorCnt"] = "5"
	g.Gov["minValidatorStake"] = "2000000000000000000000000000000" // 2 units
	return g, 7
}

// BoundaryFamily has balances near 2^200 so that huge amounts can succeed.
func BoundaryFamily(seed int64) (*GenesisSpec, int) {
	g, n := Family(0, seed)
	huge := new(big.Int).Lsh(big.NewInt(1), 200).String()
	g.Balances[3], g.Balances[4] = huge, huge
	return g, n
}

// Sink writes events as ndjson.
type Sink struct {
	w *bufio.Writer
	N int
}

func NewSink(w io.Writer) *Sink { return &Sink{w: bufio.NewWriterSize(w, 1<<20)} }
func (s *Sink) Emit(ev J) {
	bz, err := json.Marshal(ev)
	if err != nil {
		panic(err)
	}
	s.w.Write(bz)
	s.w.WriteByte('\n')
	s.N++
}
func (s *Sink) Flush() { s.w.Flush() }

// RunRandom drives one replica with the online random generator and returns the scenario it produced.
func RunRandom(seed int64, g *GenesisSpec, naccts int, p Profile, root string, emit func(J), opts ProjOpts, setup func(*Gen)) (*Scenario, *Replica, error) {
	sc := &Scenario{Genesis: *g, NAccts: naccts}
	r, err := NewReplica("A", root, g, naccts, emit)
	if err != nil {
		return nil, nil, err
	}
	r.Opts = opts
	gen := NewGen(seed, g, naccts, p)
	gen.KR, gen.B.KR = r.KR, r.KR
	if setup != nil {
		setup(gen)
	}
	exec := func(op Op) J {
		sc.Ops = append(sc.Ops, op)
		return r.Exec(&sc.Ops[len(sc.Ops)-1])
	}
	paths := []string{"account", "account", "delegatee", "reward", "gov_params", "stakes/total_power", "stakes", "proposal", "stakes/voting_power"}
	queries := func() {
		for i := gen.Rng.Intn(p.Queries + 1); i > 0 && r.Dead == ""; i-- {
			path := paths[gen.Rng.Intn(len(paths))]
			qh := int64(gen.Rng.Intn(int(r.Height) + 3)) // 0 = latest, 1..latest, one and two beyond
			if gen.Rng.Intn(3) == 0 {
				qh = r.Height - int64(gen.Rng.Intn(2))
				if qh < 0 {
					qh = 0
				}
			}
			var data []byte
			switch path {
			case "gov_params", "stakes/total_power", "stakes/voting_power":
			case "proposal":
				if pj := Project(r.App, r.KR, ProjOpts{}); gen.Rng.Intn(2) == 0 {
					// by hash: a proposal in voting or an adopted one waiting for its applying height
					var ids []string
					for _, f := range []string{"props", "fprops"} {
						if m, ok := pj[f].(J); ok {
							for id := range m {
								ids = append(ids, id)
							}
						}
					}
					sort.Strings(ids)
					if len(ids) > 0 {
						data = r.KR.HashOf(ids[gen.Rng.Intn(len(ids))])
					}
				}
			default:
				data = r.KR.Addr(1 + gen.Rng.Intn(naccts+1))
			}
			exec(Op{Kind: "query", Path: path, Data: fmt.Sprintf("%x", data), QH: qh})
		}
	}
	do := func(op Op) J {
		ev := exec(op)
		if p.Queries > 0 && r.Dead == "" {
			queries()
		}
		return ev
	}
	var waiting []Op
	for h := int64(1); h <= int64(p.Blocks) && r.Dead == ""; h++ {
		hd := gen.Cons.Header(h, gen.Rng, p.PAbsent, p.PEvidence, p.PNoProposer, gen.Stranger())
		ev := do(Op{Kind: "begin", Hdr: &hd})
		if r.Dead != "" {
			break
		}
		ntx := gen.Rng.Intn(p.MaxTxs + 1)
		if h == 1 && !p.BusyFirstBlock {
			ntx = 0 // the genesis state is not a committed version: see known finding D8
		}
		for i := 0; i < ntx && r.Dead == ""; i++ {
			post, _ := ev["post"].(J)
			if post == nil {
				break
			}
			op := gen.NextTx(ToView(post))
			if op == nil {
				continue
			}
			if gen.Rng.Float64() < p.PCheck {
				op.Kind = "check" // mempool only: this transaction is never delivered
				waiting = append(waiting, *op)
			}
			ev2 := do(*op)
			if ev2 != nil && ev2["post"] != nil {
				ev = ev2
			}
		}
		if r.Dead != "" {
			break
		}
		do(Op{Kind: "end"})
		if r.Dead != "" {
			break
		}
		if problem := gen.Cons.ApplyUpdates(h, r.LastUpdates); problem != "" {
			emit(J{"ev": "ConsensusReject", "replica": r.Name, "h": small(h), "what": problem})
			do(Op{Kind: "commit"})
			break
		}
		do(Op{Kind: "commit"})
		// what the mempool does after a commit: every transaction still waiting is re-checked (type Recheck)
		for _, w := range waiting {
			if r.Dead == "" {
				w.Recheck, w.Tag = true, "recheck:"+w.Tag
				do(w)
			}
		}
		waiting = nil
		if r.Dead == "" && gen.Rng.Float64() < p.PRestart {
			do(Op{Kind: "restart"})
		}
	}
	r.Close()
	return sc, r, nil
}

// Replay executes a recorded scenario on a fresh replica.
func Replay(sc *Scenario, name, root string, emit func(J), opts ProjOpts, noProj bool) (*Replica, error) {
	r, err := NewReplica(name, root, &sc.Genesis, sc.NAccts, emit)
	if err != nil {
		return nil, err
	}
	r.Opts, r.NoProj = opts, noProj
	for i := range sc.Ops {
		if sc.Ops[i].Only != "" && sc.Ops[i].Only != name {
			continue
		}
		r.Exec(&sc.Ops[i])
	}
	return r, nil
}

func SaveScenario(sc *Scenario, path string) error {
	bz, err := json.Marshal(sc)
	if err != nil {
		return err
	}
	return os.WriteFile(path, bz, 0o644)
}

func LoadScenario(path string) (*Scenario, error) {
	bz, err := os.ReadFile(path)
	if err != nil {
		return nil, err
	}
	sc := &Scenario{}
	if err := json.Unmarshal(bz, sc); err != nil {
		return nil, err
	}
	return sc, nil
}

func init() { _ = fmt.Sprintf }
