package appdrv

import (
	"fmt"
	"math/big"
	"sort"
	"strings"

	ethcrypto "github.com/ethereum/go-ethereum/crypto"
	"github.com/holiman/uint256"
	rctypes "github.com/rigochain/rigo-go/ctrlers/types"
	"github.com/rigochain/rigo-go/libs/web3"
	"github.com/rigochain/rigo-go/types"
)

// Script builds a directed scenario step by step against a live replica.
type Script struct {
	Name string
	R    *Replica
	Cons *Consensus
	B    *Builder
	Sc   *Scenario
	Last J // last event with a projection
	H    int64
	emit func(J)
}

// NewScript starts a scenario on a fresh replica.
func NewScript(name string, g *GenesisSpec, naccts int, root string, emit func(J)) (*Script, error) {
	r, err := NewReplica("A", root, g, naccts, func(ev J) { ev["scenario"] = name; emit(ev) })
	if err != nil {
		return nil, err
	}
	s := &Script{Name: name, R: r, Cons: NewConsensus(g, r.KR), B: &Builder{KR: r.KR, ChainID: g.ChainID},
		Sc: &Scenario{Genesis: *g, NAccts: naccts}, emit: emit}
	return s, nil
}

func (s *Script) do(op Op) J {
	s.Sc.Ops = append(s.Sc.Ops, op)
	ev := s.R.Exec(&s.Sc.Ops[len(s.Sc.Ops)-1])
	if ev != nil && ev["post"] != nil {
		s.Last = ev
	}
	return ev
}

// View returns the current consensus view.
func (s *Script) View() *View {
	if s.Last == nil {
		return ToView(Project(s.R.App, s.R.KR, s.R.Opts))
	}
	return ToView(s.Last["post"].(J))
}

// Hdr describes the consensus inputs of a block in account indices.
type Hdr struct {
	Proposer   int   // account index; 0 = first member of the set; -1 = no proposer
	Absent     []int // validators that did not sign the previous block
	Evidence   []int // validators accused (as of the previous height)
	EvStranger bool  // add evidence against an address that was never a validator
}

// Begin starts the next block.
func (s *Script) Begin(h Hdr) J {
	s.H++
	hd := BlockHeader{H: s.H}
	set := s.Cons.Sets[s.H]
	if h.Proposer > 0 {
		hd.Proposer = s.R.KR.AddrHex(h.Proposer)
	} else if h.Proposer == 0 && len(set) > 0 {
		hd.Proposer = set[0].Addr
	}
	if s.H >= 2 {
		abs := map[string]bool{}
		for _, a := range h.Absent {
			abs[s.R.KR.AddrHex(a)] = true
		}
		for _, v := range s.Cons.Sets[s.H-1] {
			hd.Votes = append(hd.Votes, VoteInfo{v.Addr, v.Power, !abs[v.Addr]})
		}
	}
	for _, a := range h.Evidence {
		addr := s.R.KR.AddrHex(a)
		pow := int64(1)
		for _, v := range s.Cons.Sets[s.H-1] {
			if v.Addr == addr {
				pow = v.Power
			}
		}
		eh := s.H - 1
		if eh < 1 {
			eh = 1
		}
		hd.Evidence = append(hd.Evidence, Evidence{addr, pow, eh})
	}
	if h.EvStranger {
		hd.Evidence = append(hd.Evidence, Evidence{s.R.KR.AddrHex(s.Sc.NAccts + 7), 1, s.H - 1})
	}
	if problem := s.Cons.CheckHeader(&hd); problem != "" {
		panic(fmt.Sprintf("scenario %s builds an illegal header at height %d: %s", s.Name, s.H, problem))
	}
	return s.do(Op{Kind: "begin", Hdr: &hd})
}

// End runs EndBlock and Commit and feeds the validator updates to the consensus simulator.
func (s *Script) End() {
	s.do(Op{Kind: "end"})
	if s.R.Dead != "" {
		return
	}
	if problem := s.Cons.ApplyUpdates(s.H, s.R.LastUpdates); problem != "" {
		s.emit(J{"ev": "ConsensusReject", "replica": s.R.Name, "h": small(s.H), "what": problem, "scenario": s.Name})
	}
	s.do(Op{Kind: "commit"})
}

// Blocks runs n empty blocks.
func (s *Script) Blocks(n int, h Hdr) {
	for i := 0; i < n && s.R.Dead == ""; i++ {
		s.Begin(h)
		s.End()
	}
}

func (s *Script) price() *uint256.Int { return u256(govLimbs(s.View().Gov, "gasPrice")) }
func (s *Script) gas() uint64         { return govLimbs(s.View().Gov, "minTrxGas").Uint64() }
func (s *Script) nonce(acct int) uint64 {
	return uint64(s.View().Accts[fmt.Sprintf("a%d", acct)].Nonce)
}

// Amt parses "12e18", "5" or a plain decimal.
func Amt(sv string) *uint256.Int {
	if i := strings.Index(sv, "e"); i > 0 {
		m, _ := new(big.Int).SetString(sv[:i], 10)
		var e int64
		fmt.Sscanf(sv[i+1:], "%d", &e)
		return u256(new(big.Int).Mul(m, new(big.Int).Exp(big.NewInt(10), big.NewInt(e), nil)))
	}
	b, ok := new(big.Int).SetString(sv, 10)
	if !ok {
		panic("bad amount " + sv)
	}
	return u256(b)
}

// Deliver signs tx with account signer and delivers it.
func (s *Script) Deliver(tx *rctypes.Trx, signer int, tag string) J {
	bz := s.B.Sign(tx, signer, s.Sc.Genesis.ChainID)
	return s.do(Op{Kind: "deliver", Tx: HexTx(bz), Tag: tag})
}

// DeliverRaw delivers arbitrary bytes.
func (s *Script) DeliverRaw(bz []byte, auth, tag string) J {
	return s.do(Op{Kind: "deliver", Tx: HexTx(bz), Auth: auth, Tag: tag})
}

func (s *Script) Check(tx *rctypes.Trx, signer int, tag string) J {
	bz := s.B.Sign(tx, signer, s.Sc.Genesis.ChainID)
	return s.do(Op{Kind: "check", Tx: HexTx(bz), Tag: tag})
}

func (s *Script) Query(path string, data []byte, h int64) J {
	return s.do(Op{Kind: "query", Path: path, Data: fmt.Sprintf("%x", data), QH: h})
}

func (s *Script) Restart() J { return s.do(Op{Kind: "restart"}) }

func (s *Script) TxTransfer(from, to int, amt string) *rctypes.Trx {
	return web3.NewTrxTransfer(s.R.KR.Addr(from), s.R.KR.Addr(to), s.nonce(from), s.gas(), s.price(), Amt(amt))
}
func (s *Script) Transfer(from, to int, amt string) J {
	return s.Deliver(s.TxTransfer(from, to, amt), from, "transfer")
}
func (s *Script) TxStake(from, to int, amt string) *rctypes.Trx {
	return web3.NewTrxStaking(s.R.KR.Addr(from), s.R.KR.Addr(to), s.nonce(from), s.gas(), s.price(), Amt(amt))
}
func (s *Script) Stake(from, to int, amt string) J {
	return s.Deliver(s.TxStake(from, to, amt), from, "staking")
}

// StakeIDs returns the ids (tokens) of the stakes owner has bonded to delegatee, in ledger order.
func (s *Script) StakeIDs(owner, delegatee int) []string {
	v := s.View()
	var out []string
	d, ok := v.Delegs[fmt.Sprintf("a%d", delegatee)]
	if !ok {
		return nil
	}
	for _, st := range d.Stakes {
		if st.From == fmt.Sprintf("a%d", owner) {
			out = append(out, st.ID)
		}
	}
	return out
}

func (s *Script) TxUnstake(from, delegatee int, id string) *rctypes.Trx {
	return web3.NewTrxUnstaking(s.R.KR.Addr(from), s.R.KR.Addr(delegatee), s.nonce(from), s.gas(), s.price(), s.R.KR.HashOf(id))
}
func (s *Script) Unstake(from, delegatee int, id string) J {
	return s.Deliver(s.TxUnstake(from, delegatee, id), from, "unstaking")
}
func (s *Script) Withdraw(from int, amt string) J {
	tx := web3.NewTrxWithdraw(s.R.KR.Addr(from), s.R.KR.Addr(from), s.nonce(from), s.gas(), s.price(), Amt(amt))
	return s.Deliver(tx, from, "withdraw")
}
func (s *Script) Propose(from int, start, period, apply int64, docs ...string) J {
	var opts [][]byte
	for _, d := range docs {
		opts = append(opts, []byte(d))
	}
	tx := web3.NewTrxProposal(s.R.KR.Addr(from), types.ZeroAddress(), s.nonce(from), s.gas(), s.price(), "msg", start, period, apply, 0x0101, opts...)
	return s.Deliver(tx, from, "proposal")
}

// ProposeType submits a proposal of the given type (0x0101: parameters; 0x0200: off-chain / common, any option text).
func (s *Script) ProposeType(from int, optType int32, msg string, start, period, apply int64, docs ...string) J {
	var opts [][]byte
	for _, d := range docs {
		opts = append(opts, []byte(d))
	}
	tx := web3.NewTrxProposal(s.R.KR.Addr(from), types.ZeroAddress(), s.nonce(from), s.gas(), s.price(), msg, start, period, apply, optType, opts...)
	return s.Deliver(tx, from, "proposal")
}

// Proposals returns the ids of the proposals in voting, sorted.
func (s *Script) Proposals() []string {
	var out []string
	for id := range s.View().Props {
		out = append(out, id)
	}
	sort.Strings(out)
	return out
}
func (s *Script) Vote(from int, prop string, choice int32) J {
	tx := web3.NewTrxVoting(s.R.KR.Addr(from), types.ZeroAddress(), s.nonce(from), s.gas(), s.price(), s.R.KR.HashOf(prop), choice)
	return s.Deliver(tx, from, "voting")
}
func (s *Script) SetDoc(from int, name, url string) J {
	return s.Deliver(web3.NewTrxSetDoc(s.R.KR.Addr(from), s.nonce(from), s.gas(), s.price(), name, url), from, "setdoc")
}

// Cum returns the withdrawable reward of an account as a decimal string.
func (s *Script) Cum(acct int) *big.Int {
	return FromLimbs(s.View().Rewards[fmt.Sprintf("a%d", acct)].Cum)
}

// OK reports whether a DeliverTx event succeeded.
func OK(ev J) bool {
	if ev == nil {
		return false
	}
	r, _ := ev["resp"].(J)
	ok, _ := r["ok"].(bool)
	return ok
}

// ---------------------------------------------------------------- contracts

// CreateAddr is the address of the contract created by account from with its current nonce.
func (s *Script) CreateAddr(from int) []byte {
	var a [20]byte
	copy(a[:], s.R.KR.Addr(from))
	addr := ethcrypto.CreateAddress(a, s.nonce(from))
	return addr[:]
}

// Deploy sends a contract-creation transaction for runtime code; returns the event and the new address.
func (s *Script) Deploy(from int, runtime []byte, slot0 int64, value string, gas uint64) (J, []byte) {
	addr := s.CreateAddr(from)
	tx := web3.NewTrxContract(s.R.KR.Addr(from), types.ZeroAddress(), s.nonce(from), gas, s.price(), Amt(value), Deployer(runtime, slot0))
	return s.Deliver(tx, from, "contract:deploy"), addr
}

// deployRaw sends a contract-creation transaction with the given INIT code as it is.
func (s *Script) deployRaw(from int, initCode []byte, value string, gas uint64) (J, []byte) {
	addr := s.CreateAddr(from)
	tx := web3.NewTrxContract(s.R.KR.Addr(from), types.ZeroAddress(), s.nonce(from), gas, s.price(), Amt(value), initCode)
	return s.Deliver(tx, from, "contract:deploy-raw"), addr
}

// CallC sends a contract call.
func (s *Script) CallC(from int, to []byte, data []byte, value string, gas uint64) J {
	tx := web3.NewTrxContract(s.R.KR.Addr(from), to, s.nonce(from), gas, s.price(), Amt(value), data)
	return s.Deliver(tx, from, "contract:call")
}

// TransferTo is a native transfer to an arbitrary address (routed to the EVM if the receiver is a contract account).
func (s *Script) TransferTo(from int, to []byte, amt string, gas uint64) J {
	if gas == 0 {
		gas = s.gas()
	}
	tx := web3.NewTrxTransfer(s.R.KR.Addr(from), to, s.nonce(from), gas, s.price(), Amt(amt))
	return s.Deliver(tx, from, "transfer:toaddr")
}

func childAddr(creator []byte, nonce uint64) []byte {
	var a [20]byte
	copy(a[:], creator)
	addr := ethcrypto.CreateAddress(a, nonce)
	return addr[:]
}
