package appdrv

import (
	"encoding/hex"
	"encoding/json"
	"fmt"
	"math/big"
	"os"
	"path/filepath"
	"sort"
	"strings"

	"github.com/ethereum/go-ethereum/common"
	"github.com/holiman/uint256"
	"github.com/rigochain/rigo-go/ctrlers/gov/proposal"
	"github.com/rigochain/rigo-go/ctrlers/stake"
	rctypes "github.com/rigochain/rigo-go/ctrlers/types"
	"github.com/rigochain/rigo-go/ledger"
	"github.com/rigochain/rigo-go/libs/verifhook"
	rtypes "github.com/rigochain/rigo-go/types"
	"github.com/rigochain/rigo-go/types/crypto"
	abcitypes "github.com/tendermint/tendermint/abci/types"
	tmjson "github.com/tendermint/tendermint/libs/json"
	tmtypes "github.com/tendermint/tendermint/types"
)

// Op is one step of a scenario; a scenario is a GenesisSpec plus a list of Ops
// and can be executed on any number of replicas.
type Op struct {
	Kind string       `json:"kind"` // begin | deliver | end | commit | check | query | restart | info
	Hdr  *BlockHeader `json:"hdr,omitempty"`
	Tx   string       `json:"tx,omitempty"`   // raw transaction bytes, hex
	Auth string       `json:"auth,omitempty"` // how the generator signed it: "" = valid, else e.g. "mut:amount", "wrongkey", "wrongchain"
	Tag  string       `json:"tag,omitempty"`  // generator's label
	Path string       `json:"path,omitempty"`
	Self bool         `json:"self,omitempty"` // (injection pool) a self-staking transaction
	Data string       `json:"data,omitempty"` // query data, hex
	QH   int64        `json:"qh,omitempty"`   // query height
	Only string       `json:"only,omitempty"` // execute only on the replica with this name (injections)
	// (deliver) the signed transaction these bytes were made from by changing only bytes that are not executed: the
	// reference run executes THAT transaction (the delivered bytes must do exactly what it does)
	RefTx string `json:"ref_tx,omitempty"`
	// (check) the request is a re-check: what the mempool sends after a commit for every transaction still waiting
	Recheck bool `json:"recheck,omitempty"`
}

func (op *Op) checkType() abcitypes.CheckTxType {
	if op.Recheck {
		return abcitypes.CheckTxType_Recheck
	}
	return abcitypes.CheckTxType_New
}

// Scenario is a complete, replayable experiment.
type Scenario struct {
	Genesis GenesisSpec `json:"genesis"`
	NAccts  int         `json:"naccts"`
	Ops     []Op        `json:"ops"`
}

// Replica is one application instance executing a scenario and recording events.
type Replica struct {
	Name        string
	Root        string // parent of the data directories of this replica (each restart uses a fresh copy)
	gen         int
	App         *App
	KR          *Keyring
	G           *GenesisSpec
	Opts        ProjOpts
	NoProj      bool // record responses only
	Dead        string
	Height      int64 // last committed height
	InBlock     bool
	emit        func(J)
	LastUpdates []abcitypes.ValidatorUpdate
	CurHdr      *BlockHeader
	OpN         int // index of the next op (events carry it as "op")
	// QueryAfterCommit: take the committed projection through Query after every Commit
	QueryAfterCommit bool
}

// NewReplica opens a fresh application under root and runs InitChain.
func NewReplica(name, root string, g *GenesisSpec, naccts int, emit func(J)) (*Replica, error) {
	PowerUnit = 1
	if g.PowerUnit > 1 {
		PowerUnit = g.PowerUnit
	}
	r := &Replica{Name: name, Root: root, KR: NewKeyring(g.Seed, naccts), G: g, emit: emit, QueryAfterCommit: true}
	app, info, err := OpenApp(filepath.Join(root, fmt.Sprintf("%s-%d", name, r.gen)))
	if err != nil {
		return nil, err
	}
	r.App = app
	if info.LastBlockHeight != 0 {
		return nil, fmt.Errorf("fresh application reports height %d", info.LastBlockHeight)
	}
	var resp abcitypes.ResponseInitChain
	pm := Call(func() { resp, err = app.InitChain(g, r.KR) })
	if pm != "" || err != nil {
		return nil, fmt.Errorf("InitChain failed: %v %s", err, pm)
	}
	ev := J{"ev": "Genesis", "replica": name, "chain": g.ChainID, "naccts": naccts, "addrRank": r.KR.ByteRank(),
		"validators": genVals(g), "apphash": r.KR.Tok(resp.AppHash), "powerUnit": small64(PowerUnit / 1000000)}
	if !r.NoProj {
		ev["post"] = Project(app, r.KR, r.Opts)
	}
	emit(ev)
	return r, nil
}

func genVals(g *GenesisSpec) []J {
	out := []J{}
	for _, v := range g.Validators {
		out = append(out, J{"v": fmt.Sprintf("a%d", v.Acct), "pow": pw(v.Power)})
	}
	return out
}

// Attach wraps an already opened application (used for crash-recovery runs).
func Attach(name, root string, app *App, g *GenesisSpec, kr *Keyring, height int64, emit func(J)) *Replica {
	return &Replica{Name: name, Root: root, App: app, KR: kr, G: g, emit: emit, Height: height, QueryAfterCommit: true}
}

func (r *Replica) post(ev J) {
	if !r.NoProj && r.Dead == "" {
		if pm := Call(func() { ev["post"] = Project(r.App, r.KR, r.Opts) }); pm != "" {
			ev["projPanic"] = pm
		}
	}
}

// Exec executes one op and emits its event. After a panic inside a consensus
// call the replica is dead (as the real node would be) and ignores further ops.
func (r *Replica) Exec(op *Op) J {
	if r.Dead != "" && op.Kind != "restart" {
		return nil
	}
	ev := J{"replica": r.Name, "op": r.OpN}
	r.OpN++
	if op.Tag != "" {
		ev["tag"] = op.Tag
	}
	switch op.Kind {
	case "begin":
		ev["ev"] = "BeginBlock"
		ev["h"] = small(op.Hdr.H)
		ev["proposer"] = "none"
		if op.Hdr.Proposer != "" {
			ev["proposer"] = r.KR.Name(unhex(op.Hdr.Proposer))
		}
		votes, evid := []J{}, []J{}
		for _, v := range op.Hdr.Votes {
			votes = append(votes, J{"v": r.KR.Name(unhex(v.Addr)), "pow": pw(v.Power), "signed": v.Signed})
		}
		for _, e := range op.Hdr.Evidence {
			evid = append(evid, J{"v": r.KR.Name(unhex(e.Addr)), "pow": pw(e.Power), "h": small(e.Height)})
		}
		ev["votes"], ev["evidence"] = votes, evid
		var resp abcitypes.ResponseBeginBlock
		r.CurHdr = op.Hdr
		pm := Call(func() { resp = r.App.Core.BeginBlock(op.Hdr.Request()) })
		ev["panic"] = pm
		ev["resp"] = J{"events": projEvents(resp.Events, r.KR)}
		if pm != "" {
			r.Dead = "BeginBlock: " + pm
		} else {
			r.InBlock = true
		}
	case "deliver":
		ev["ev"] = "DeliverTx"
		bz := unhex(op.Tx)
		ev["tx"] = r.TxMeta(bz, op.Auth)
		var ref *RefResult
		var refTx *rctypes.Trx
		if r.Opts.EVM && r.CurHdr != nil {
			refBz := bz
			if op.RefTx != "" {
				refBz = unhex(op.RefTx)
				ev["ignoredBytes"] = true
			}
			Call(func() { ref, refTx = r.reference(refBz) })
		}
		var resp abcitypes.ResponseDeliverTx
		var bridge []J
		if r.Opts.EVM {
			verifhook.OnEvmOp = func(op string, args ...interface{}) { bridge = append(bridge, r.bridgeEvent(op, args)) }
		}
		pm := Call(func() { resp = r.App.Core.DeliverTx(abcitypes.RequestDeliverTx{Tx: bz}) })
		verifhook.OnEvmOp = nil
		if len(bridge) > 0 {
			ev["bridge"] = bridge
		}
		if ref != nil && pm == "" {
			Call(func() { r.addReference(ev, ref, refTx, resp) })
		}
		ev["panic"] = pm
		ev["resp"] = J{"ok": pm == "" && resp.Code == 0, "code": int(resp.Code), "gasWanted": LimbsU64(uint64(resp.GasWanted)),
			"gasUsed": LimbsU64(uint64(resp.GasUsed)), "data": r.KR.Tok(resp.Data), "dataLen": len(resp.Data), "log": clipLog(resp.Log),
			"events": projEvents(resp.Events, r.KR)}
		if pm != "" {
			r.Dead = "DeliverTx: " + pm
		}
	case "end":
		ev["ev"] = "EndBlock"
		ev["h"] = small(r.Height + 1)
		var resp abcitypes.ResponseEndBlock
		pm := Call(func() { resp = r.App.Core.EndBlock(abcitypes.RequestEndBlock{Height: r.Height + 1}) })
		ev["panic"] = pm
		ups := []J{}
		for _, u := range resp.ValidatorUpdates {
			addr, _ := crypto.PubBytes2Addr(u.PubKey.GetSecp256K1())
			ups = append(ups, J{"v": r.KR.Name(addr), "pow": pw(u.Power), "powNeg": u.Power < 0})
		}
		ev["resp"] = J{"valUpdates": ups, "events": projEvents(resp.Events, r.KR)}
		r.LastUpdates = resp.ValidatorUpdates
		if pm != "" {
			r.Dead = "EndBlock: " + pm
		}
	case "commit":
		ev["ev"] = "Commit"
		ev["h"] = small(r.Height + 1)
		var resp abcitypes.ResponseCommit
		pm := Call(func() { resp = r.App.Core.Commit() })
		ev["panic"] = pm
		ev["resp"] = J{"hash": r.KR.Tok(resp.Data)}
		if pm != "" {
			r.Dead = "Commit: " + pm
		} else {
			r.Height++
			r.InBlock = false
			if r.QueryAfterCommit && !r.NoProj {
				// first of all the previous height once more (its answers must be what they were when it was the
				// latest), then the height just committed
				if r.Height >= 2 {
					ev["recommitted"] = r.QueryAll(r.Height - 1)
				}
				ev["committed"] = r.QueryAll(r.Height)
			}
		}
	case "check":
		ev["ev"] = "CheckTx"
		bz := unhex(op.Tx)
		ev["tx"] = r.TxMeta(bz, op.Auth)
		var resp abcitypes.ResponseCheckTx
		pm := Call(func() { resp = r.App.Core.CheckTx(abcitypes.RequestCheckTx{Tx: bz, Type: op.checkType()}) })
		ev["panic"], ev["recheck"] = pm, op.Recheck
		ev["resp"] = J{"ok": pm == "" && resp.Code == 0, "code": int(resp.Code), "log": clipLog(resp.Log)}
	case "query":
		ev["ev"] = "Query"
		ev["path"], ev["qh"] = op.Path, small64(op.QH)
		data := unhex(op.Data)
		ev["key"] = r.queryKeyName(op.Path, data)
		var resp abcitypes.ResponseQuery
		SetStoreHeight(r.Height)
		before := ""
		if r.Opts.EVM && !r.NoProj {
			before = StateDigest(r.App, r.KR)
		}
		pm := Call(func() { resp = r.App.Core.Query(abcitypes.RequestQuery{Path: op.Path, Data: data, Height: op.QH}) })
		ev["stateSame"] = before == "" || before == StateDigest(r.App, r.KR)
		ev["panic"] = pm
		ev["inblock"] = r.InBlock
		ev["lastH"] = small(r.Height)
		parsed := r.parseQuery(op.Path, resp)
		rawBytes := resp.Value
		if op.Path == "proposal" {
			// the answer contains a map (the voters) that the node's JSON encoder writes in no fixed order: the digest
			// used for "the answer never changes" is taken over the decoded content instead of the bytes
			if _, bad := parsed.(string); !bad {
				if bz, err := json.Marshal(parsed); err == nil {
					rawBytes = bz
				}
			}
		}
		ev["resp"] = J{"code": int(resp.Code), "raw": r.KR.Tok(sha(rawBytes)), "len": len(resp.Value), "parsed": wrapParsed(parsed)}
	case "restart":
		return r.Restart()
	case "info":
		ev["ev"] = "Info"
		var resp abcitypes.ResponseInfo
		pm := Call(func() { resp = r.App.Core.Info(abcitypes.RequestInfo{}) })
		ev["panic"] = pm
		ev["resp"] = J{"h": small(resp.LastBlockHeight), "hash": r.KR.Tok(resp.LastBlockAppHash)}
	default:
		panic("unknown op kind " + op.Kind)
	}
	if op.Kind != "query" && op.Kind != "info" {
		r.post(ev)
	}
	r.emit(ev)
	return ev
}

func small64(v int64) int {
	if v < -(1<<30) || v > (1<<30) {
		if v < 0 {
			return -(1 << 30)
		}
		return 1 << 30
	}
	return int(v)
}

func clipLog(s string) string {
	s = strings.ReplaceAll(s, "\n", " ")
	if len(s) > 160 {
		s = s[:160]
	}
	return s
}

func projEvents(evs []abcitypes.Event, kr *Keyring) []J {
	out := []J{}
	for _, e := range evs {
		attrs := []J{}
		for _, a := range e.Attributes {
			v := string(a.Value)
			if len(v) > 32 || !isPrintable(v) {
				v = kr.Tok(sha(a.Value))
			}
			attrs = append(attrs, J{"k": string(a.Key), "v": v})
		}
		out = append(out, J{"type": e.Type, "attrs": attrs})
	}
	return out
}

func isPrintable(s string) bool {
	for _, c := range s {
		if c < 32 || c > 126 {
			return false
		}
	}
	return true
}

// Close releases the resources of the application instance (end of a run).
func (r *Replica) Close() {
	if r.App != nil {
		app := r.App
		Call(func() { _ = app.Core.Stop() })
		Call(func() { vv := app.Core.VerifView(); vv.Stake.VerifCloseLeaked(); vv.Gov.VerifCloseLeaked() })
	}
}

// Restart kills the process (the data directory as it is on disk) and opens a
// new instance on a copy of it.
func (r *Replica) Restart() J {
	src := r.App.Dir
	r.gen++
	dst := filepath.Join(r.Root, fmt.Sprintf("%s-%d", r.Name, r.gen))
	ev := J{"ev": "Restart", "replica": r.Name, "panic": ""}
	if err := CopyDir(src, dst); err != nil {
		panic(err)
	}
	// the old process is gone: release its file handles (Stop leaves three databases open; see DESIGN.md)
	old := r.App
	Call(func() { _ = old.Core.Stop() })
	Call(func() { vv := old.Core.VerifView(); vv.Stake.VerifCloseLeaked(); vv.Gov.VerifCloseLeaked() })
	app, info, err := OpenApp(dst)
	if err != nil {
		ev["panic"] = err.Error()
		r.Dead = "open: " + err.Error()
		r.emit(ev)
		return ev
	}
	_ = os.RemoveAll(src)
	r.App = app
	r.Dead = ""
	r.InBlock = false
	ev["resp"] = J{"h": small(info.LastBlockHeight), "hash": r.KR.Tok(info.LastBlockAppHash)}
	r.Height = info.LastBlockHeight
	r.post(ev)
	r.emit(ev)
	return ev
}

// ---------------------------------------------------------------- transactions

var typeNames = map[int32]string{1: "transfer", 2: "staking", 3: "unstaking", 4: "proposal", 5: "voting", 6: "contract", 7: "setdoc", 8: "withdraw"}

// TxMeta decodes raw transaction bytes into the abstract transaction of the specifications.
func (r *Replica) TxMeta(bz []byte, auth string) J {
	if auth == "" {
		auth = "valid"
	}
	tx := &rctypes.Trx{}
	var xerr error
	if pm := Call(func() {
		if e := tx.Decode(bz); e != nil {
			xerr = e
		}
	}); pm != "" || xerr != nil {
		return J{"type": "garbage", "len": len(bz), "hash": r.KR.Tok(tmtypes.Tx(bz).Hash()), "auth": auth}
	}
	tn, ok := typeNames[tx.Type]
	if !ok {
		tn = fmt.Sprintf("type%d", tx.Type)
	}
	m := J{"type": tn, "hash": r.KR.Tok(tmtypes.Tx(bz).Hash()), "from": r.KR.NameAddr(tx.From), "to": r.KR.NameAddr(tx.To),
		"fromLen": len(tx.From), "toLen": len(tx.To),
		"amount": Limbs(tx.Amount), "nonce": small64(int64(tx.Nonce)), "nonceBig": tx.Nonce > 1<<30, "gas": LimbsU64(tx.Gas), "gasPrice": Limbs(tx.GasPrice),
		"auth": auth, "payload": J{"kind": "none"}}
	switch p := tx.Payload.(type) {
	case *rctypes.TrxPayloadUnstaking:
		m["payload"] = J{"kind": "unstaking", "stake": r.KR.Tok(p.TxHash), "len": len(p.TxHash)}
	case *rctypes.TrxPayloadWithdraw:
		m["payload"] = J{"kind": "withdraw", "req": Limbs(p.ReqAmt)}
	case *rctypes.TrxPayloadVoting:
		m["payload"] = J{"kind": "voting", "prop": r.KR.Tok(p.TxHash), "choice": int(p.Choice)}
	case *rctypes.TrxPayloadContract:
		m["payload"] = J{"kind": "contract", "data": r.KR.Tok(sha(p.Data)), "len": len(p.Data)}
	case *rctypes.TrxPayloadSetDoc:
		m["payload"] = J{"kind": "setdoc", "name": clip(p.Name), "url": clip(p.URL), "nameLen": len(p.Name), "urlLen": len(p.URL)}
	case *rctypes.TrxPayloadProposal:
		opts := []J{}
		for _, o := range p.Options {
			opts = append(opts, J{"doc": r.KR.Tok(sha(o)), "fields": optionFields(o)})
		}
		m["payload"] = J{"kind": "proposal", "start": small64(p.StartVotingHeight), "period": small64(p.VotingPeriodBlocks),
			"apply": small64(p.ApplyingHeight), "optType": int(p.OptType), "opts": opts}
	}
	return m
}

// optionFields renders a governance option document as the partial parameter
// record it denotes (only the fields that are present and non-zero), or "invalid".
func optionFields(doc []byte) any {
	gp := &rctypes.GovParams{}
	var err error
	if pm := Call(func() { err = tmjson.Unmarshal(doc, gp) }); pm != "" || err != nil {
		return J{"valid": false, "f": J{}}
	}
	return J{"valid": true, "f": GovDocFields(doc, false)}
}

// ---------------------------------------------------------------- queries

func (r *Replica) queryKeyName(path string, data []byte) string {
	switch path {
	case "proposal":
		if len(data) == 0 {
			return "all"
		}
		return r.KR.Tok(data)
	case "gov_params", "stakes/total_power", "stakes/voting_power":
		return "none"
	case "vm_call":
		return r.KR.Tok(sha(data))
	}
	return r.KR.Name(data)
}

type queriedProp struct {
	Status   string                `json:"status"`
	Proposal *proposal.GovProposal `json:"proposal"`
}

// parseQuery decodes a query answer into the same shape as the projection.
func (r *Replica) parseQuery(path string, resp abcitypes.ResponseQuery) (out any) {
	if resp.Code != 0 {
		return "error"
	}
	defer func() {
		if p := recover(); p != nil {
			out = "unparsable"
		}
	}()
	switch path {
	case "account":
		var a struct {
			Address []byte `json:"address"`
			Name    string `json:"name"`
			Nonce   uint64 `json:"nonce,string"`
			Balance string `json:"balance"`
			Code    string `json:"code"`
			DocURL  string `json:"docURL"`
		}
		raw := map[string]any{}
		if err := json.Unmarshal(resp.Value, &raw); err != nil {
			return "unparsable"
		}
		a.Name, _ = raw["name"].(string)
		a.DocURL, _ = raw["docURL"].(string)
		a.Balance, _ = raw["balance"].(string)
		ns, _ := raw["nonce"].(string)
		fmt.Sscanf(ns, "%d", &a.Nonce)
		code := 0
		if c, ok := raw["code"].(string); ok && c != "" {
			code = 1
		}
		bal, err := uint256.FromDecimal(a.Balance)
		if err != nil {
			return "unparsable"
		}
		return J{"bal": Limbs(bal), "nonce": small64(int64(a.Nonce)), "code": code, "name": clip(a.Name), "url": clip(a.DocURL)}
	case "delegatee":
		d := &stake.Delegatee{}
		if err := tmjson.Unmarshal(resp.Value, d); err != nil {
			return "unparsable"
		}
		return projDelegatee(d, r.KR)
	case "stakes":
		var ss []*stake.Stake
		if err := tmjson.Unmarshal(resp.Value, &ss); err != nil {
			return "unparsable"
		}
		l := []J{}
		for _, s := range ss {
			l = append(l, projStake(s, r.KR))
		}
		return l
	case "reward":
		rw := &stake.Reward{}
		if err := tmjson.Unmarshal(resp.Value, rw); err != nil {
			return "unparsable"
		}
		return projReward(rw)
	case "stakes/total_power", "stakes/voting_power":
		var v int64
		if _, err := fmt.Sscanf(string(resp.Value), "%d", &v); err != nil {
			return "unparsable"
		}
		return pw(v)
	case "gov_params":
		gp := &rctypes.GovParams{}
		if err := tmjson.Unmarshal(resp.Value, gp); err != nil {
			return "unparsable"
		}
		return ProjGov(gp)
	case "proposal":
		if strings.HasPrefix(strings.TrimSpace(string(resp.Value)), "[") || string(resp.Value) == "null" {
			var ps []*queriedProp
			if err := tmjson.Unmarshal(resp.Value, &ps); err != nil {
				return "unparsable"
			}
			voting, frozen := J{}, J{}
			for _, p := range ps {
				if p.Status == "voting" {
					voting[r.KR.Tok(p.Proposal.TxHash)] = projProposal(p.Proposal, r.KR)
				} else {
					frozen[r.KR.Tok(p.Proposal.TxHash)] = projProposal(p.Proposal, r.KR)
				}
			}
			return J{"props": voting, "fprops": frozen}
		}
		p := &queriedProp{}
		if err := tmjson.Unmarshal(resp.Value, p); err != nil {
			return "unparsable"
		}
		return J{"status": p.Status, "prop": projProposal(p.Proposal, r.KR)}
	case "vm_call":
		res := &rctypes.VMCallResult{}
		if err := tmjson.Unmarshal(resp.Value, res); err != nil {
			return "unparsable"
		}
		return J{"gasUsed": LimbsU64(res.UsedGas), "err": clipLog(res.Err), "ret": r.KR.Tok(res.ReturnData), "retLen": len(res.ReturnData)}
	}
	return "unknown"
}

func wrapParsed(v any) J {
	if s, ok := v.(string); ok {
		return J{"ok": false, "why": s}
	}
	return J{"ok": true, "v": v}
}

// KnownAddrs returns every address the keyring has named so far (keyring accounts first).
func (r *Replica) KnownAddrs() [][]byte {
	var ks []string
	for k := range r.KR.names {
		if len(k) == 40 {
			ks = append(ks, k)
		}
	}
	sort.Slice(ks, func(i, j int) bool { return r.KR.names[ks[i]] < r.KR.names[ks[j]] })
	var out [][]byte
	for _, k := range ks {
		out = append(out, unhex(k))
	}
	return out
}

func (r *Replica) query(path string, data []byte, h int64) (abcitypes.ResponseQuery, string) {
	var resp abcitypes.ResponseQuery
	pm := Call(func() { resp = r.App.Core.Query(abcitypes.RequestQuery{Path: path, Data: data, Height: h}) })
	return resp, pm
}

// QueryAll reads the state committed at height h exclusively through the
// public Query interface (an independent path from Project).
func (r *Replica) QueryAll(h int64) J {
	out := J{"h": small(h)}
	accts, delegs, rewards, stakesOf, raw := J{}, J{}, J{}, J{}, J{}
	for _, ad := range r.KnownAddrs() {
		n := r.KR.Name(ad)
		if resp, pm := r.query("account", ad, h); pm == "" && resp.Code == 0 {
			if p, ok := r.parseQuery("account", resp).(J); ok {
				// an absent account is reported as an empty one: keep only non-empty ones
				if len(p["bal"].([]int)) != 0 || p["nonce"].(int) != 0 || p["code"].(int) != 0 || p["name"].(string) != "" || p["url"].(string) != "" {
					accts[n] = p
				}
			}
			raw["account/"+n] = r.KR.Tok(sha(resp.Value))
		}
		if resp, pm := r.query("delegatee", ad, h); pm == "" && resp.Code == 0 {
			delegs[n] = r.parseQuery("delegatee", resp)
			raw["delegatee/"+n] = r.KR.Tok(sha(resp.Value))
		}
		if resp, pm := r.query("reward", ad, h); pm == "" && resp.Code == 0 {
			rewards[n] = r.parseQuery("reward", resp)
			raw["reward/"+n] = r.KR.Tok(sha(resp.Value))
		}
		if resp, pm := r.query("stakes", ad, h); pm == "" && resp.Code == 0 {
			if l, ok := r.parseQuery("stakes", resp).([]J); ok && len(l) > 0 {
				stakesOf[n] = l
			}
		}
	}
	out["accts"], out["delegs"], out["rewards"], out["stakesOf"] = accts, delegs, rewards, stakesOf
	if resp, pm := r.query("stakes/total_power", nil, h); pm == "" && resp.Code == 0 {
		out["totalPower"] = r.parseQuery("stakes/total_power", resp)
	} else {
		out["totalPower"] = -1
	}
	if resp, pm := r.query("gov_params", nil, h); pm == "" && resp.Code == 0 {
		out["gov"] = r.parseQuery("gov_params", resp)
		raw["gov_params"] = r.KR.Tok(sha(resp.Value))
	} else {
		out["gov"] = J{}
	}
	out["props"], out["fprops"] = J{}, J{}
	// the same proposals asked for one by one, by transaction hash (another code path of the query handler)
	propsH, fpropsH := J{}, J{}
	if resp, pm := r.query("proposal", nil, h); pm == "" && resp.Code == 0 {
		if p, ok := r.parseQuery("proposal", resp).(J); ok {
			out["props"], out["fprops"] = p["props"], p["fprops"]
			for _, m := range []J{p["props"].(J), p["fprops"].(J)} {
				for id := range m {
					if one, pm := r.query("proposal", r.KR.HashOf(id), h); pm == "" && one.Code == 0 {
						if q, ok := r.parseQuery("proposal", one).(J); ok && q["prop"] != nil {
							if q["status"] == "voting" {
								propsH[id] = q["prop"]
							} else {
								fpropsH[id] = q["prop"]
							}
						}
					}
				}
			}
		}
	}
	out["propsH"], out["fpropsH"] = propsH, fpropsH
	out["raw"] = raw
	return out
}

// HexTx is a helper for generators.
func HexTx(bz []byte) string { return hex.EncodeToString(bz) }

// reference runs the C17 reference for an EVM-executed transaction (nil otherwise).
func (r *Replica) reference(bz []byte) (*RefResult, *rctypes.Trx) {
	tx := &rctypes.Trx{}
	if tx.Decode(bz) != nil || len(tx.From) != 20 || len(tx.To) != 20 {
		return nil, nil
	}
	vv := r.App.Core.VerifView()
	// which transactions the reference EVM executes: contract transactions, and plain transfers to an
	// address that has code in the EVM world (decided on the EVM state, not on the native account's marker)
	isEvm := tx.Type == rctypes.TRX_CONTRACT
	if tx.Type == rctypes.TRX_TRANSFER {
		if st := vv.EVM.VerifStateCopy(); st != nil {
			var ad common.Address
			copy(ad[:], tx.To)
			isEvm = st.GetCodeSize(ad) > 0
		}
		if acct := vv.Acct.FindAccount(tx.To, true); acct != nil && acct.Code != nil {
			isEvm = true
		}
	}
	if !isEvm {
		return nil, nil
	}
	var proposer []byte
	if r.CurHdr.Proposer != "" {
		proposer = unhex(r.CurHdr.Proposer)
	}
	gp := vv.Gov.GetGovParams()
	return ReferenceRun(r.App, tx, proposer, r.CurHdr.H, BlockTime(r.CurHdr.H).Unix(), gp.GasPrice().ToBig(), tmtypes.Tx(bz).Hash(), vv.TxsCnt), tx
}

func (r *Replica) addReference(ev J, ref *RefResult, tx *rctypes.Trx, resp abcitypes.ResponseDeliverTx) {
	addrs := map[string][]byte{}
	r.App.Core.VerifView().Acct.VerifLedger().VerifConsensusView(func(k ledger.LedgerKey, ac *rctypes.Account) {
		ad := ac.Address
		if len(ad) != 20 {
			// the record is found under the key of the padded address (see seedFromNative); a record whose key is not
			// that of any 20-byte address (left by a refused transaction with an over-long receiver field) is out of
			// the EVM's reach
			for _, b := range k[20:] {
				if b != 0 {
					return
				}
			}
			ad = k[:20]
		}
		addrs[r.KR.NameAddr(ac.Address)] = append([]byte{}, ad...)
	})
	for _, ad := range ref.Touched {
		addrs[r.KR.Name(ad[:])] = append([]byte{}, ad[:]...)
	}
	p := RefProjection(ref, r.KR, addrs)
	implLogs := 0
	for _, e := range resp.Events {
		if e.Type == "evm" {
			for _, a := range e.Attributes {
				if string(a.Key) == "contract" {
					implLogs++
				}
			}
		}
	}
	p["ok"], p["err"], p["ret"], p["retLen"] = ref.OK, clipLog(ref.VMErr), r.KR.Tok(ref.Ret), len(ref.Ret)
	p["gasUsed"], p["logs"], p["implLogs"] = LimbsU64(ref.GasUsed), ref.Logs, implLogs
	p["create"] = rtypes.IsZeroAddress(tx.To)
	ev["ref"] = p
	// what the reference run burned excuses a loss of value only if the application executed the transaction too
	// (the reference does not verify signatures: a refused transaction burns nothing)
	if ref.OK && resp.Code == 0 {
		ev["evmBurn"] = LimbsBig(ref.Burn)
	}
}

// bridgeEvent renders one StateDBWrapper operation reported by the EvmOp hook.
func (r *Replica) bridgeEvent(op string, args []interface{}) J {
	ev := J{"op": op, "a": "none", "n": 0, "amt": []int{}, "tag": 0, "kind": ""}
	name := func(x interface{}) string {
		switch v := x.(type) {
		case common.Address:
			return r.KR.Name(v[:])
		case rtypes.Address:
			return r.KR.Name(v)
		}
		return "none"
	}
	amt := func(x interface{}) []int {
		switch v := x.(type) {
		case *big.Int:
			return LimbsBig(v)
		case *uint256.Int:
			return Limbs(v)
		}
		return []int{}
	}
	num := func(x interface{}) int {
		switch v := x.(type) {
		case int:
			return v
		case uint64:
			return small64(int64(v))
		}
		return 0
	}
	get := func(i int) interface{} {
		if i < len(args) {
			return args[i]
		}
		return nil
	}
	switch op {
	case "ExecBegin":
		ev["a"], ev["to"] = name(get(0)), name(get(1))
	case "Prepare":
		ev["a"], ev["to"], ev["n"] = name(get(0)), name(get(1)), num(get(2))
	case "Snapshot", "RevertToSnapshot":
		ev["n"] = num(get(0))
	case "SyncIn":
		ev["a"], ev["n"], ev["amt"], ev["tag"] = name(get(0)), num(get(1)), amt(get(2)), num(get(3))
	case "WriteBack":
		ev["a"], ev["n"], ev["amt"] = name(get(0)), num(get(1)), amt(get(2))
	case "SubBalance", "AddBalance", "GetBalance":
		ev["a"], ev["amt"] = name(get(0)), amt(get(1))
	case "SetNonce", "GetNonce":
		ev["a"], ev["n"] = name(get(0)), num(get(1))
	case "ExecEnd":
		if k, ok := get(0).(string); ok {
			ev["kind"] = k
		}
	default: // CreateAccount, Suicide, SetState, SetCode, Exist, Empty, UnSync, AddLog, Finish
		ev["a"] = name(get(0))
	}
	return ev
}
