package appdrv

import (
	"fmt"
	"math/big"

	"github.com/holiman/uint256"
	rctypes "github.com/rigochain/rigo-go/ctrlers/types"
	"github.com/rigochain/rigo-go/libs/web3"
	"github.com/rigochain/rigo-go/types"
)

// fieldMut is one post-signing mutation of a decoded transaction.
type fieldMut struct {
	name string
	f    func(tx *rctypes.Trx) bool // false: not applicable to this transaction
}

func addU256(v *uint256.Int, d int64) *uint256.Int {
	b := v.ToBig()
	b.Add(b, big.NewInt(d))
	if b.Sign() < 0 {
		return nil
	}
	return u256(b)
}

func flipByte(b []byte, i int) []byte {
	c := append([]byte{}, b...)
	if len(c) == 0 {
		return []byte{1}
	}
	c[i%len(c)] ^= 0x01
	return c
}

// fieldMutations lists every mutation of one executed field value.
func fieldMutations(kr *Keyring, full bool) []fieldMut {
	ms := []fieldMut{
		{"version+1", func(tx *rctypes.Trx) bool { tx.Version++; return true }},
		{"time+1", func(tx *rctypes.Trx) bool { tx.Time++; return true }},
		{"time-1", func(tx *rctypes.Trx) bool { tx.Time--; return true }},
		{"nonce+1", func(tx *rctypes.Trx) bool { tx.Nonce++; return true }},
		{"from:other", func(tx *rctypes.Trx) bool { tx.From = kr.Addr(5); return true }},
		{"from:fresh", func(tx *rctypes.Trx) bool { tx.From = kr.Addr(6); return true }},
		{"to:other", func(tx *rctypes.Trx) bool {
			if types.IsZeroAddress(tx.To) {
				tx.To = kr.Addr(2)
			} else {
				tx.To = kr.Addr(3)
			}
			return true
		}},
		{"to:+1 byte", func(tx *rctypes.Trx) bool { tx.To = append(append([]byte{}, tx.To...), 0x01); return true }},
		{"to:+12 bytes", func(tx *rctypes.Trx) bool {
			tx.To = append(append([]byte{}, tx.To...), 0, 0, 0, 0, 0, 0, 0, 0, 0, 0, 0, 7)
			return true
		}},
		{"to:-1 byte", func(tx *rctypes.Trx) bool { tx.To = append([]byte{}, tx.To[:19]...); return true }},
		{"from:+1 byte", func(tx *rctypes.Trx) bool { tx.From = append(append([]byte{}, tx.From...), 0x01); return true }},
		{"amount+1", func(tx *rctypes.Trx) bool { tx.Amount = addU256(tx.Amount, 1); return true }},
		{"amount-1", func(tx *rctypes.Trx) bool {
			if tx.Amount.IsZero() {
				return false
			}
			tx.Amount = addU256(tx.Amount, -1)
			return true
		}},
		{"amount*2", func(tx *rctypes.Trx) bool {
			if tx.Amount.IsZero() {
				return false
			}
			tx.Amount = new(uint256.Int).Add(tx.Amount, tx.Amount)
			return true
		}},
		{"amount+2^64", func(tx *rctypes.Trx) bool {
			tx.Amount = new(uint256.Int).Add(tx.Amount, new(uint256.Int).Lsh(uint256.NewInt(1), 64))
			return true
		}},
		{"gas+1", func(tx *rctypes.Trx) bool { tx.Gas++; return true }},
		{"gas+2^32", func(tx *rctypes.Trx) bool { tx.Gas += 1 << 32; return true }},
		{"gasPrice+1", func(tx *rctypes.Trx) bool { tx.GasPrice = addU256(tx.GasPrice, 1); return true }},
		{"type:transfer<->staking", func(tx *rctypes.Trx) bool {
			switch tx.Type {
			case rctypes.TRX_TRANSFER:
				tx.Type, tx.Payload = rctypes.TRX_STAKING, &rctypes.TrxPayloadStaking{}
			case rctypes.TRX_STAKING:
				tx.Type, tx.Payload = rctypes.TRX_TRANSFER, &rctypes.TrxPayloadAssetTransfer{}
			default:
				return false
			}
			return true
		}},
		{"payload.stake", func(tx *rctypes.Trx) bool {
			p, ok := tx.Payload.(*rctypes.TrxPayloadUnstaking)
			if !ok {
				return false
			}
			tx.Payload = &rctypes.TrxPayloadUnstaking{TxHash: flipByte(p.TxHash, 7)}
			return true
		}},
		{"payload.req+1", func(tx *rctypes.Trx) bool {
			p, ok := tx.Payload.(*rctypes.TrxPayloadWithdraw)
			if !ok {
				return false
			}
			tx.Payload = &rctypes.TrxPayloadWithdraw{ReqAmt: addU256(p.ReqAmt, 1)}
			return true
		}},
		{"payload.req*2", func(tx *rctypes.Trx) bool {
			p, ok := tx.Payload.(*rctypes.TrxPayloadWithdraw)
			if !ok || p.ReqAmt.IsZero() {
				return false
			}
			tx.Payload = &rctypes.TrxPayloadWithdraw{ReqAmt: new(uint256.Int).Add(p.ReqAmt, p.ReqAmt)}
			return true
		}},
		{"payload.prop", func(tx *rctypes.Trx) bool {
			p, ok := tx.Payload.(*rctypes.TrxPayloadVoting)
			if !ok {
				return false
			}
			tx.Payload = &rctypes.TrxPayloadVoting{TxHash: flipByte(p.TxHash, 3), Choice: p.Choice}
			return true
		}},
		{"payload.choice", func(tx *rctypes.Trx) bool {
			p, ok := tx.Payload.(*rctypes.TrxPayloadVoting)
			if !ok {
				return false
			}
			tx.Payload = &rctypes.TrxPayloadVoting{TxHash: p.TxHash, Choice: 1 - p.Choice}
			return true
		}},
		{"payload.name", func(tx *rctypes.Trx) bool {
			p, ok := tx.Payload.(*rctypes.TrxPayloadSetDoc)
			if !ok {
				return false
			}
			tx.Payload = &rctypes.TrxPayloadSetDoc{Name: p.Name + "x", URL: p.URL}
			return true
		}},
		{"payload.url", func(tx *rctypes.Trx) bool {
			p, ok := tx.Payload.(*rctypes.TrxPayloadSetDoc)
			if !ok {
				return false
			}
			tx.Payload = &rctypes.TrxPayloadSetDoc{Name: p.Name, URL: p.URL + "x"}
			return true
		}},
		{"payload.name<->url", func(tx *rctypes.Trx) bool {
			p, ok := tx.Payload.(*rctypes.TrxPayloadSetDoc)
			if !ok {
				return false
			}
			tx.Payload = &rctypes.TrxPayloadSetDoc{Name: p.URL, URL: p.Name}
			return true
		}},
		{"payload.name|url boundary", func(tx *rctypes.Trx) bool {
			p, ok := tx.Payload.(*rctypes.TrxPayloadSetDoc)
			if !ok || len(p.Name) < 2 {
				return false
			}
			tx.Payload = &rctypes.TrxPayloadSetDoc{Name: p.Name[:len(p.Name)-1], URL: p.Name[len(p.Name)-1:] + p.URL}
			return true
		}},
		{"payload.data", func(tx *rctypes.Trx) bool {
			p, ok := tx.Payload.(*rctypes.TrxPayloadContract)
			if !ok {
				return false
			}
			tx.Payload = &rctypes.TrxPayloadContract{Data: flipByte(p.Data, len(p.Data)-1)}
			return true
		}},
	}
	prop := func(name string, f func(p *rctypes.TrxPayloadProposal)) fieldMut {
		return fieldMut{name, func(tx *rctypes.Trx) bool {
			p, ok := tx.Payload.(*rctypes.TrxPayloadProposal)
			if !ok {
				return false
			}
			c := *p
			c.Options = append([][]byte{}, p.Options...)
			f(&c)
			tx.Payload = &c
			return true
		}}
	}
	ms = append(ms,
		prop("payload.message", func(p *rctypes.TrxPayloadProposal) { p.Message += "!" }),
		prop("payload.start+1", func(p *rctypes.TrxPayloadProposal) { p.StartVotingHeight++ }),
		prop("payload.period+1", func(p *rctypes.TrxPayloadProposal) { p.VotingPeriodBlocks++ }),
		prop("payload.period-1", func(p *rctypes.TrxPayloadProposal) { p.VotingPeriodBlocks-- }),
		prop("payload.apply+1", func(p *rctypes.TrxPayloadProposal) { p.ApplyingHeight++ }),
		prop("payload.apply+2^32", func(p *rctypes.TrxPayloadProposal) { p.ApplyingHeight += 1 << 32 }),
		prop("payload.optType", func(p *rctypes.TrxPayloadProposal) { p.OptType ^= 0x0300 }),
		prop("payload.option0", func(p *rctypes.TrxPayloadProposal) { p.Options[0] = []byte(`{"gasPrice":"11"}`) }),
		prop("payload.option+", func(p *rctypes.TrxPayloadProposal) { p.Options = append(p.Options, []byte(`{"slashRatio":"99"}`)) }),
		prop("payload.option swap", func(p *rctypes.TrxPayloadProposal) {
			if len(p.Options) >= 2 {
				p.Options[0], p.Options[1] = p.Options[1], p.Options[0]
			} else {
				p.Options[0] = append(p.Options[0], ' ')
			}
		}),
	)
	_ = full
	return ms
}

func cloneTx(bz []byte) *rctypes.Trx {
	tx := &rctypes.Trx{}
	if xerr := tx.Decode(bz); xerr != nil {
		panic(xerr)
	}
	return tx
}

// MutationMatrix (C03): for every transaction type a transaction that is known
// to succeed is signed; every single-field mutation of it, every signature
// mutation, other chain ids, another signer and the wrong pre-image encoding are
// delivered first and must fail without effect; the unmutated transaction is
// delivered last and must succeed.
func MutationMatrix(s *Script, full bool) {
	kr := s.R.KR
	chain := s.Sc.Genesis.ChainID
	s.Blocks(3, allHdr)
	s.Begin(allHdr) // 4
	s.expect(OK(s.Stake(4, 1, "3e18")), "a4 delegates to a1 (a stake to release later)")
	s.expect(OK(s.Propose(1, 6, 3, 11, `{"gasPrice":"20"}`, `{"minTrxGas":"15"}`)), "a1 opens a proposal")
	s.expect(OK(s.Transfer(4, 5, "50e18")), "a5 is funded")
	s.End()
	s.Blocks(1, allHdr)
	props := s.Proposals()
	s.expect(len(props) == 1, "one open proposal")
	bases := []struct {
		name   string
		signer int
		build  func() *rctypes.Trx
	}{
		{"voting", 3, func() *rctypes.Trx {
			return web3.NewTrxVoting(kr.Addr(3), types.ZeroAddress(), s.nonce(3), s.gas(), s.price(), kr.HashOf(props[0]), 0)
		}},
		{"transfer", 4, func() *rctypes.Trx { return s.TxTransfer(4, 2, "2e18") }},
		// other values of the version field (no rule speaks about it; it is signed like every field)
		{"transfer-v0", 4, func() *rctypes.Trx { tx := s.TxTransfer(4, 2, "1e18"); tx.Version = 0; return tx }},
		{"transfer-v2", 4, func() *rctypes.Trx { tx := s.TxTransfer(4, 2, "1e18"); tx.Version = 2; return tx }},
		{"staking-v0", 4, func() *rctypes.Trx { tx := s.TxStake(4, 2, "1e18"); tx.Version = 0; return tx }},
		{"staking", 4, func() *rctypes.Trx { return s.TxStake(4, 2, "2e18") }},
		{"unstaking", 4, func() *rctypes.Trx { return s.TxUnstake(4, 1, s.StakeIDs(4, 1)[0]) }},
		{"withdraw", 1, func() *rctypes.Trx {
			return web3.NewTrxWithdraw(kr.Addr(1), kr.Addr(1), s.nonce(1), s.gas(), s.price(), Amt("1000"))
		}},
		{"proposal", 2, func() *rctypes.Trx {
			return web3.NewTrxProposal(kr.Addr(2), types.ZeroAddress(), s.nonce(2), s.gas(), s.price(), "msg", s.H+2, 3, s.H+8, 0x0101,
				[]byte(`{"slashRatio":"40"}`), []byte(`{"slashRatio":"60"}`))
		}},
		{"setdoc", 4, func() *rctypes.Trx {
			return web3.NewTrxSetDoc(kr.Addr(4), s.nonce(4), s.gas(), s.price(), "name", "url")
		}},
		// one of the two strings empty: nothing but the encoding says which field the other one is
		{"setdoc-nourl", 3, func() *rctypes.Trx {
			return web3.NewTrxSetDoc(kr.Addr(3), s.nonce(3), s.gas(), s.price(), "only-a-name", "")
		}},
		{"setdoc-noname", 3, func() *rctypes.Trx {
			return web3.NewTrxSetDoc(kr.Addr(3), s.nonce(3), s.gas(), s.price(), "", "only-a-url")
		}},
	}
	for _, b := range bases {
		if s.R.Dead != "" {
			return
		}
		s.Begin(allHdr)
		tx := b.build()
		good := s.B.Sign(tx, b.signer, chain)
		for _, m := range fieldMutations(kr, full) {
			c := cloneTx(good)
			if !m.f(c) || c.Amount == nil {
				continue
			}
			s.DeliverRaw(Encode(c), "mut:"+m.name, b.name+":mut:"+m.name)
		}
		// signature mutations
		sig := cloneTx(good).Sig
		pos := []int{0, 15, 31, 32, 47, 63, 64}
		if full {
			pos = nil
			for i := 0; i < len(sig); i++ {
				pos = append(pos, i)
			}
		}
		for _, i := range pos {
			c := cloneTx(good)
			c.Sig = flipByte(sig, i)
			s.DeliverRaw(Encode(c), fmt.Sprintf("sig:flip%d", i), b.name+":sig")
		}
		for _, bad := range [][]byte{nil, sig[:64], append(append([]byte{}, sig...), 0), make([]byte, 65)} {
			c := cloneTx(good)
			c.Sig = bad
			s.DeliverRaw(Encode(c), fmt.Sprintf("sig:len%d", len(bad)), b.name+":sig")
		}
		// other chains
		for _, ch := range []string{chain + "x", chain[:len(chain)-1], "", chain + ")", "x" + chain, "VERIF-CHAIN"} {
			c := b.build()
			s.DeliverRaw(s.B.Sign(c, b.signer, ch), "wrongchain", b.name+":chain")
		}
		// another key claims the sender
		for _, other := range []int{5, 6, 1} {
			if other == b.signer {
				continue
			}
			c := b.build()
			s.DeliverRaw(s.B.Sign(c, other, chain), "wrongkey", b.name+":key")
		}
		// signature over the protobuf pre-image instead of the RLP one
		c := b.build()
		c.Time = tx.Time
		if _, _, err := kr.Wallet(b.signer).SignTrxProto(c, chain); err == nil {
			s.DeliverRaw(Encode(c), "protosig", b.name+":protosig")
		}
		// a transaction signed for a FUTURE nonce, lowered to the current one after signing
		fut := b.build()
		fut.Nonce++
		futBz := s.B.Sign(fut, b.signer, chain)
		low := cloneTx(futBz)
		low.Nonce--
		s.DeliverRaw(Encode(low), "mut:nonce lowered", b.name+":mut:nonce-lowered")
		s.expect(OK(s.DeliverRaw(good, "", b.name)), "the unmutated "+b.name+" transaction succeeds")
		// after it took effect: the same signed bytes with the nonce raised to the sender's new nonce
		rep := cloneTx(good)
		rep.Nonce++
		s.DeliverRaw(Encode(rep), "mut:nonce raised after execution", b.name+":mut:nonce-replay")
		s.DeliverRaw(good, "", "replay:"+b.name)
		s.End()
		s.Begin(allHdr)
		s.DeliverRaw(Encode(rep), "mut:nonce raised after execution", b.name+":mut:nonce-replay")
		s.End()
	}
	s.Blocks(2, allHdr)
}
