package appdrv

import (
	"bytes"
	"fmt"
	rctypes "github.com/rigochain/rigo-go/ctrlers/types"
	"time"

	"github.com/rigochain/rigo-go/libs/web3"
	"github.com/rigochain/rigo-go/types"
	"math/big"
	"os"
	"sort"
	"strings"
)

// Directed is a hand-written scenario aimed at one rule of the specification.
type Directed struct {
	Name   string
	Serves []string
	Family func(seed int64) (*GenesisSpec, int)
	Run    func(s *Script)
}

func famWith(i int, gov map[string]string) func(int64) (*GenesisSpec, int) {
	return func(seed int64) (*GenesisSpec, int) {
		g, n := Family(i, seed)
		for k, v := range gov {
			g.Gov[k] = v
		}
		return g, n
	}
}

func fam(i int) func(int64) (*GenesisSpec, int) {
	return func(seed int64) (*GenesisSpec, int) { return Family(i, seed) }
}

// windowGrows: validator `who` is reported absent in the blocks `absentAt`; meanwhile governance enlarges the signing window
// from 4 (at least 2 signed) to 30 (at least 28 signed), in force from block 14.  The last absence is judged with the new
// window, which reaches back over all the earlier ones.
func windowGrows(s *Script, who int, absentAt []int64) {
	abs := map[int64]bool{}
	for _, h := range absentAt {
		abs[h] = true
	}
	var prop []string
	for h := int64(1); h <= 20; h++ {
		if abs[h] {
			s.Begin(Hdr{Absent: []int{who}})
		} else {
			s.Begin(allHdr)
		}
		switch h {
		case 6:
			s.expect(OK(s.Propose(1, 8, 2, 13, `{"signedBlocksWindow":"30","minSignedBlocks":"28"}`)), "proposal enlarging the window")
		case 8:
			prop = s.Proposals()
			for _, v := range []int{1, 2, 3, 4} {
				if v != who && len(prop) == 1 {
					s.Vote(v, prop[0], 0)
				}
			}
		}
		s.End()
		if s.R.Dead != "" {
			return
		}
	}
}

// expect records that a set-up step of a scenario did not behave as intended.
func (s *Script) expect(cond bool, what string) {
	if !cond {
		s.emit(J{"ev": "Note", "scenario": s.Name, "unexpected": what})
	}
}

var allHdr = Hdr{}

// Scenarios is the catalogue of directed scenarios (DESIGN.md appendix B).
var Scenarios = []Directed{
	{"recreate_in_block", []string{"C02", "C11", "C18"}, fam(0), func(s *Script) {
		// a validator unstakes its only stake, self-stakes twice and receives a delegation, all in one block
		s.Blocks(2, allHdr)
		s.Begin(allHdr)
		ids := s.StakeIDs(1, 1)
		s.expect(len(ids) == 1, "validator a1 has one genesis stake")
		s.expect(OK(s.Unstake(1, 1, ids[0])), "unstake of the genesis stake succeeds")
		s.expect(OK(s.Stake(1, 1, "3e18")), "first re-stake succeeds")
		s.expect(OK(s.Stake(1, 1, "3e18")), "second re-stake succeeds")
		s.expect(OK(s.Stake(4, 1, "2e18")), "delegation to the re-created delegatee succeeds")
		s.End()
		s.Blocks(5, allHdr)
	}},
	{"genesis_twins_unbond", []string{"C02", "C12", "C11"}, famWith(0, map[string]string{"maxUpdatableStakeRatio": "100"}), func(s *Script) {
		s.Blocks(2, allHdr)
		s.Begin(allHdr)
		s.expect(OK(s.Unstake(1, 1, s.StakeIDs(1, 1)[0])), "a1 unstakes its genesis stake")
		s.expect(OK(s.Unstake(2, 2, s.StakeIDs(2, 2)[0])), "a2 unstakes its genesis stake")
		s.End()
		s.Blocks(6, allHdr)
	}},
	{"twin_jail", []string{"C02", "C12", "C14", "C10"}, fam(3), func(s *Script) {
		// two of four equal validators are absent until both are jailed; window 4, min signed 2
		s.Blocks(2, allHdr)
		for i := 0; i < 6 && s.R.Dead == ""; i++ {
			s.Begin(Hdr{Absent: []int{1}})
			s.End()
		}
		s.Blocks(8, allHdr)
	}},
	{"huge_stake", []string{"C02", "C09", "C05"}, BoundaryFamily, func(s *Script) {
		s.Blocks(2, allHdr)
		s.Begin(allHdr)
		two64 := new(big.Int).Lsh(big.NewInt(1), 64)
		mul := func(b *big.Int) string { return new(big.Int).Mul(b, E18).String() }
		s.Stake(4, 4, mul(new(big.Int).Add(two64, big.NewInt(1)))) // power would truncate to 1
		s.Stake(4, 4, mul(new(big.Int).Lsh(big.NewInt(1), 63)))    // power would be negative
		s.Stake(5, 1, mul(new(big.Int).Add(big.NewInt(MaxTotalVotingPower), big.NewInt(1))))
		s.Transfer(4, 5, new(big.Int).Lsh(big.NewInt(1), 199).String())
		s.Transfer(5, 6, new(big.Int).Sub(new(big.Int).Lsh(big.NewInt(1), 255), big.NewInt(1)).String())
		s.Transfer(5, 6, new(big.Int).Lsh(big.NewInt(1), 255).String())
		s.Transfer(5, 6, new(big.Int).Sub(new(big.Int).Lsh(big.NewInt(1), 256), big.NewInt(1)).String())
		s.End()
		s.Blocks(2, allHdr)
	}},
	{"early_rewards", []string{"C13", "C10"}, fam(0), func(s *Script) {
		// a genesis validator's stake changes in block 1: the genesis state is not a committed version (D8)
		s.Begin(allHdr)
		s.expect(OK(s.Stake(4, 1, "5e18")), "delegation to a genesis validator in block 1")
		s.End()
		s.Blocks(6, allHdr)
	}},
	{"early_unbond", []string{"C13", "C10"}, fam(0), func(s *Script) {
		s.Begin(allHdr)
		s.expect(OK(s.Unstake(1, 1, s.StakeIDs(1, 1)[0])), "a genesis validator unstakes in block 1")
		s.End()
		s.Blocks(6, allHdr)
	}},
	{"same_block_withdraw", []string{"C13", "C02", "C16"}, fam(0), func(s *Script) {
		s.Blocks(4, allHdr)
		s.Begin(allHdr)
		cum := s.Cum(1)
		s.expect(cum.Sign() > 0, "a1 has rewards after four signed blocks")
		half := new(big.Int).Div(cum, big.NewInt(2))
		s.expect(OK(s.Withdraw(1, half.String())), "partial withdrawal")
		rest := new(big.Int).Sub(cum, half)
		s.expect(!OK(s.Withdraw(1, new(big.Int).Add(rest, big.NewInt(1)).String())), "withdrawal of rest+1 fails")
		s.expect(OK(s.Withdraw(1, rest.String())), "withdrawal of the rest")
		s.expect(OK(s.Withdraw(1, "0")), "withdrawal of zero")
		s.expect(!OK(s.Withdraw(1, "1")), "withdrawal from an empty reward fails")
		s.End()
		s.Blocks(2, allHdr)
	}},
	{"slash_then_unstake", []string{"C02", "C12", "C14", "C11"}, fam(2), func(s *Script) {
		s.Blocks(2, allHdr)
		s.Begin(allHdr)
		s.expect(OK(s.Stake(6, 5, "7e18")), "a6 delegates 7 to a5")
		s.expect(OK(s.Stake(7, 5, "1e18")), "a7 delegates 1 to a5 (forfeited by a 34% slash)")
		s.expect(OK(s.Stake(8, 5, "1e18")), "a8 delegates 1 to a5 (a second stake too small to be cut)")
		s.expect(OK(s.Stake(9, 5, "2e18")), "a9 delegates 2 to a5 (floor(2*34/100) = 0: forfeited as well)")
		s.expect(OK(s.Stake(6, 5, "3e18")), "a6 delegates 3 more to a5 (an ordinary stake after the small ones)")
		s.End()
		s.Blocks(3, allHdr)
		s.Begin(Hdr{Evidence: []int{5}})
		ids := s.StakeIDs(6, 5)
		s.expect(len(ids) == 2, "a6's two stakes survive the slash")
		s.expect(len(s.StakeIDs(7, 5))+len(s.StakeIDs(8, 5))+len(s.StakeIDs(9, 5)) == 0, "the three stakes too small to be cut are forfeited")
		if len(ids) >= 1 {
			// (the stake limiter still holds the pre-slash power, so this attempt is refused; no listed property says otherwise)
			s.Unstake(6, 5, ids[0])
		}
		s.End()
		s.Begin(allHdr)
		if ids := s.StakeIDs(6, 5); len(ids) >= 1 {
			s.expect(OK(s.Unstake(6, 5, ids[0])), "a6 unstakes the slashed stake")
		}
		s.End()
		s.Begin(Hdr{Evidence: []int{5, 5}, EvStranger: true}) // repeated evidence and an unknown validator
		s.End()
		s.Blocks(5, allHdr)
	}},
	{"forced_unbond", []string{"C11", "C12", "C10"}, fam(0), func(s *Script) {
		// delegators are force-released when the validator withdraws its own stake
		s.Blocks(2, allHdr)
		s.Begin(allHdr)
		s.expect(OK(s.Stake(4, 1, "4e18")), "a4 delegates to a1")
		s.expect(OK(s.Stake(5, 1, "3e18")), "a5 delegates to a1")
		s.End()
		s.Blocks(1, allHdr)
		s.Begin(allHdr)
		s.expect(!OK(s.Unstake(5, 1, s.StakeIDs(4, 1)[0])), "a5 cannot release a4's stake")
		s.expect(!OK(s.Unstake(1, 1, s.StakeIDs(4, 1)[0])), "the delegatee cannot release a4's stake")
		s.expect(OK(s.Unstake(1, 1, s.StakeIDs(1, 1)[0])), "a1 unstakes its own stake")
		s.End()
		s.Blocks(6, allHdr)
	}},
	{"vote_window_edges", []string{"C15", "C14"}, fam(0), func(s *Script) {
		s.Blocks(3, allHdr)
		s.Begin(allHdr) // h = 4
		s.expect(OK(s.Propose(1, 6, 2, 10, `{"gasPrice":"20"}`, `{"minTrxGas":"15"}`)), "proposal by validator a1: window 6..8, apply 10")
		s.expect(!OK(s.Propose(4, 6, 2, 10, `{"gasPrice":"30"}`)), "proposal by a non-validator fails")
		s.End()
		p := s.Proposals()
		s.expect(len(p) == 1, "one proposal in voting")
		if len(p) != 1 {
			return
		}
		s.Begin(allHdr) // 5: before the window
		s.expect(!OK(s.Vote(1, p[0], 0)), "vote before the window fails")
		s.End()
		s.Begin(allHdr) // 6
		s.expect(OK(s.Vote(1, p[0], 1)), "vote at start")
		s.expect(!OK(s.Vote(4, p[0], 0)), "outsider vote fails")
		s.expect(!OK(s.Vote(2, p[0], 2)), "vote for a non-existent option fails")
		s.End()
		s.Begin(Hdr{Evidence: []int{3}}) // 7: a voter is slashed
		s.expect(!OK(s.Vote(1, p[0], 5)), "a vote for a non-existent option by somebody who has voted fails (and leaves the earlier vote standing)")
		s.expect(!OK(s.Vote(1, p[0], -1)), "a negative choice fails")
		s.expect(OK(s.Vote(1, p[0], 0)), "re-vote moves the tally")
		s.expect(OK(s.Vote(3, p[0], 0)), "slashed voter votes with reduced power")
		s.End()
		s.Begin(allHdr) // 8 = end
		s.expect(!OK(s.Vote(3, p[0], 2)), "out-of-range choice by a voter whose vote stands")
		s.expect(OK(s.Vote(2, p[0], 1)), "vote at end (somebody else's accepted vote after the refused one)")
		s.End()
		s.Begin(allHdr) // 9: closed
		s.expect(!OK(s.Vote(2, p[0], 0)), "vote after the window fails")
		s.End()
		s.Blocks(4, allHdr)
		s.Begin(allHdr)
		s.Transfer(4, 5, "1e18") // at the old or new price, whichever is active
		s.End()
	}},
	{"threshold_exact", []string{"C15"}, fam(2), func(s *Script) {
		// powers 5,8,10,12,20 (total 55, threshold 36): 36 = 8+...; exactly at and just below two thirds
		s.Blocks(3, allHdr)
		s.Begin(allHdr)
		s.expect(OK(s.Propose(5, 6, 2, 10, `{"lazyRewardBlocks":"5"}`)), "proposal A")
		s.expect(OK(s.Propose(4, 6, 2, 10, `{"slashRatio":"20"}`)), "proposal B")
		s.End()
		p := s.Proposals()
		if len(p) != 2 {
			s.expect(false, "two proposals in voting")
			return
		}
		s.Blocks(1, allHdr)
		s.Begin(allHdr) // 6
		// proposal p[0]: 20+12+5 = 37 >= 36 -> adopted; proposal p[1]: 20+10+5 = 35 < 36 -> dropped
		s.Vote(5, p[0], 0)
		s.Vote(4, p[0], 0)
		s.Vote(1, p[0], 0)
		s.Vote(5, p[1], 0)
		s.Vote(3, p[1], 0)
		s.Vote(1, p[1], 0)
		s.End()
		s.Blocks(7, allHdr)
	}},
	{"majority_lost", []string{"C15"}, fam(0), func(s *Script) {
		// an option holds two thirds inside the window and loses it before the window closes:
		// proposal A by a re-vote, proposal B by a re-vote back and forth, proposal C because a voter is slashed away
		s.Blocks(3, allHdr)
		s.Begin(allHdr) // 4
		s.expect(OK(s.Propose(1, 6, 3, 12, `{"minTrxGas":"15"}`, `{"minTrxGas":"25"}`)), "proposal A")
		s.expect(OK(s.Propose(2, 6, 3, 12, `{"gasPrice":"30"}`, `{"gasPrice":"40"}`)), "proposal B")
		s.expect(OK(s.Propose(3, 6, 3, 12, `{"slashRatio":"60"}`)), "proposal C")
		s.End()
		p := s.Proposals()
		if len(p) != 3 {
			s.expect(false, "three proposals in voting")
			return
		}
		s.Blocks(1, allHdr)
		s.Begin(allHdr) // 6: every proposal reaches 20 of 30 for option 0
		for _, id := range p {
			s.expect(OK(s.Vote(1, id, 0)), "a1 votes 0")
			s.expect(OK(s.Vote(2, id, 0)), "a2 votes 0")
		}
		s.End()
		s.Begin(allHdr) // 7: a2 moves to option 1 where there is one; a3 joins option 1
		s.Vote(2, p[0], 1)
		s.Vote(2, p[1], 1)
		s.Vote(3, p[0], 1)
		s.End()
		s.Begin(Hdr{Evidence: []int{2}}) // 8: a2 is slashed (power 10 -> 5 at 50 %): proposals lose power and threshold moves
		s.Vote(2, p[1], 0)               // and comes back on one of them with what is left
		s.End()
		s.Blocks(6, allHdr)
		s.Begin(allHdr)
		s.Transfer(4, 5, "1e18")
		s.End()
	}},
	{"evidence_burst", []string{"C14", "C15"}, fam(3), func(s *Script) {
		// several pieces of evidence in one block while proposals are open: against two different voters, twice
		// against the same voter, and against a voter plus a stranger
		s.Blocks(3, allHdr)
		s.Begin(allHdr) // 4
		s.expect(OK(s.Propose(1, 6, 5, 14, `{"slashRatio":"30"}`, `{"slashRatio":"40"}`)), "proposal A")
		s.expect(OK(s.Propose(2, 7, 4, 14, `{"minTrxGas":"5000"}`)), "proposal B")
		s.expect(OK(s.Stake(5, 1, "40e18")), "a delegation to a1")
		s.End()
		p := s.Proposals()
		s.Blocks(1, allHdr)
		s.Begin(allHdr) // 6
		for _, id := range p {
			s.Vote(1, id, 0)
			s.Vote(2, id, 0)
		}
		s.End()
		s.Begin(Hdr{Evidence: []int{2, 3}}) // 7: two offenders, one has voted and one has not
		for _, id := range p {
			s.Vote(4, id, 0)
		}
		s.End()
		s.Begin(Hdr{Evidence: []int{1, 1}}) // 8: the same offender twice
		s.End()
		s.Begin(Hdr{Evidence: []int{4, 2, 4}, EvStranger: true}) // 9
		for _, id := range p {
			s.Vote(3, id, 0)
		}
		s.End()
		s.Blocks(8, allHdr)
	}},
	{"swap_delegators", []string{"C13", "C11"}, fam(0), func(s *Script) {
		// a validator's total power stays the same while the stakes behind it change: one delegator leaves and
		// another bonds the same amount in the same block, then again one and two blocks apart
		s.Blocks(2, allHdr)
		s.Begin(allHdr) // 3
		s.expect(OK(s.Stake(4, 1, "4e18")), "a4 -> a1")
		s.End()
		s.Blocks(5, allHdr)
		s.Begin(allHdr) // 9
		s.expect(OK(s.Unstake(4, 1, s.StakeIDs(4, 1)[0])), "a4 leaves a1")
		s.expect(OK(s.Stake(5, 1, "4e18")), "a5 takes its place with the same power")
		s.End()
		s.Blocks(5, allHdr)
		s.Begin(allHdr) // 15
		s.expect(OK(s.Unstake(5, 1, s.StakeIDs(5, 1)[0])), "a5 leaves a1")
		s.End()
		s.Begin(allHdr) // 16
		s.expect(OK(s.Stake(6, 1, "4e18")), "a6 takes its place one block later")
		s.End()
		s.Blocks(2, allHdr)
		s.Begin(allHdr) // 19
		s.expect(OK(s.Unstake(6, 1, s.StakeIDs(6, 1)[0])), "a6 leaves")
		s.expect(OK(s.Stake(1, 1, "4e18")), "the validator itself replaces the power")
		s.End()
		s.Blocks(6, allHdr)
	}},
	{"redistribute_same_total", []string{"C10", "C13"}, fam(0), func(s *Script) {
		// the number of validators and the sum of their powers stay what they were while the distribution changes:
		// power moves from one validator to another inside one block (a delegator moves; a validator cuts its own stake
		// while another raises its own by as much), first between validators of different power, then back
		s.Blocks(2, allHdr)
		s.Begin(allHdr) // 3
		s.expect(OK(s.Stake(4, 1, "5e18")), "a4 -> a1")
		s.End()
		s.Blocks(2, allHdr)
		s.Begin(allHdr) // 6
		s.expect(OK(s.Unstake(4, 1, s.StakeIDs(4, 1)[0])), "a4 leaves a1")
		s.expect(OK(s.Stake(4, 2, "5e18")), "and bonds the same power to a2")
		s.End()
		s.Blocks(3, allHdr)
		s.Begin(allHdr) // 10
		s.expect(OK(s.Stake(3, 3, "2e18")), "a3 raises its own stake by 2")
		s.expect(OK(s.Stake(5, 1, "1e18")), "a5 -> a1: 1")
		s.End()
		s.Blocks(2, allHdr)
		s.Begin(allHdr) // 13
		s.expect(OK(s.Unstake(4, 2, s.StakeIDs(4, 2)[0])), "a4 leaves a2 (-5)")
		s.expect(OK(s.Stake(5, 1, "3e18")), "a5 -> a1: 3")
		s.expect(OK(s.Stake(5, 3, "2e18")), "a5 -> a3: 2")
		s.End()
		s.Blocks(1, allHdr)
		s.Restart()
		s.Blocks(4, allHdr)
	}},
	{"big_powers", []string{"C15", "C14", "C11", "C13", "C02", "C10", "C12"}, BigUnitFamily, func(s *Script) {
		// powers of the order of 10^17: products like power x ratio leave the 64-bit range.  A voter is accused after it
		// voted (196608 -> 98304 units), a validator bonds more, another one is accused while absent.  (No delegation: the
		// application's ratio checks multiply a power by 100 in 64 bits and refuse valid delegations at this size - not a
		// matter of the listed properties, see DESIGN 11.21.)
		s.Blocks(2, allHdr)
		s.Begin(allHdr) // 3
		s.expect(OK(s.Propose(3, 5, 4, 13, `{"lazyRewardBlocks":"5"}`)), "a3 opens a proposal")
		s.expect(OK(s.Stake(1, 1, "98304e30")), "a1 bonds 98304 units more (two own stakes)")
		s.End()
		p := s.Proposals()
		if len(p) != 1 {
			s.expect(false, "one proposal in voting")
			return
		}
		s.Blocks(1, allHdr)
		s.Begin(allHdr) // 5
		s.expect(OK(s.Vote(1, p[0], 0)), "a1 (196608 units at submission) votes")
		s.expect(OK(s.Vote(3, p[0], 0)), "a3 (294912) votes")
		s.End()
		s.Begin(Hdr{Evidence: []int{1}}) // 6: a1 loses half
		s.End()
		s.Begin(allHdr) // 7
		s.expect(OK(s.Withdraw(3, "1e18")), "a3 withdraws some reward")
		if ids := s.StakeIDs(1, 1); len(ids) == 2 {
			s.expect(OK(s.Unstake(1, 1, ids[1])), "a1 releases its second stake")
		}
		s.End()
		s.Begin(Hdr{Evidence: []int{3}, Absent: []int{2}}) // 8
		s.End()
		s.Blocks(8, allHdr)
	}},
	{"many_new_accounts", []string{"C04", "C05", "C02"}, fam(0), func(s *Script) {
		// volume inside one block: a transaction, then 150 transfers that each create an account, then the same bytes
		// again, the sender's next transactions, and the same once more in the next block and after a restart
		kr := s.R.KR
		chain := s.Sc.Genesis.ChainID
		s.Blocks(2, allHdr)
		s.Begin(allHdr) // 3
		first := s.B.Sign(s.TxTransfer(4, 6, "1e18"), 4, chain)
		s.expect(OK(s.DeliverRaw(first, "", "transfer")), "a4 pays a6")
		for i := 0; i < 150; i++ {
			s.TransferTo(5, childAddr(kr.Addr(5), uint64(1000+i)), "1000", 0)
		}
		s.expect(!OK(s.DeliverRaw(first, "", "replay:transfer")), "the same bytes again after 150 new accounts")
		s.expect(OK(s.Transfer(4, 6, "1e18")), "a4's next transaction")
		s.expect(OK(s.Stake(4, 1, "2e18")), "and the one after it")
		s.End()
		s.Begin(allHdr) // 4
		s.expect(!OK(s.DeliverRaw(first, "", "replay:transfer")), "the same bytes in the next block")
		for i := 0; i < 40; i++ {
			s.TransferTo(6, childAddr(kr.Addr(5), uint64(1000+i)), "7", 0)
		}
		s.expect(OK(s.Transfer(4, 5, "3")), "a4 again")
		s.End()
		s.Restart()
		s.Begin(allHdr) // 5
		s.expect(!OK(s.DeliverRaw(first, "", "replay:transfer")), "the same bytes after a restart")
		s.expect(OK(s.Transfer(5, 4, "3")), "a5 still works")
		s.End()
		s.Blocks(1, allHdr)
	}},
	{"clock_probe", []string{"C01"}, fam(0), func(s *Script) {
		// transactions whose signed creation time lies just beyond / just short of round distances from the moment of
		// execution.  The replica check re-signs them right before it starts replica A (RefreshClockProbes); replica B
		// executes the same bytes at least 1.1 s later: whatever compares the field with the local clock against a round
		// threshold decides differently on the two.
		s.Blocks(2, allHdr)
		s.Begin(allHdr) // 3
		for _, ms := range ClockProbeOffsets() {
			tx := s.TxTransfer(6, 5, "1000")
			bz := s.B.SignAt(tx, 6, s.Sc.Genesis.ChainID, time.Now().Add(time.Duration(ms)*time.Millisecond).UnixNano())
			s.DeliverRaw(bz, "", fmt.Sprintf("clockprobe:%d", ms))
		}
		s.End()
		s.Blocks(2, allHdr)
	}},
	{"absences_over_window", []string{"C07", "C08", "C14", "C01"}, fam(3), func(s *Script) {
		// signing window 4, at least 2 signed: a validator misses two blocks, signs for longer than the window, misses
		// again (the old marks have left the window by then), and again a little later - never often enough to be stopped.
		// The record of its missed blocks is rewritten at every miss.
		s.Blocks(2, allHdr)
		for h := 3; h <= 18; h++ {
			switch h {
			case 3, 4, 9, 11, 14, 17:
				s.Begin(Hdr{Absent: []int{2}})
			default:
				s.Begin(allHdr)
			}
			if h == 12 {
				s.Stake(5, 2, "2e18") // another writer of the same record
			}
			s.End()
		}
	}},
	{"mixed_proposal_types", []string{"C15", "C07", "C19"}, fam(0), func(s *Script) {
		// proposals of both types (parameters; off-chain text) adopted together and applied in the same block, in both
		// orders of their ledger keys: off-chain proposals are proposed until one sorts before and one after the
		// parameter proposal
		s.Blocks(2, allHdr)
		s.Begin(allHdr) // 3
		s.expect(OK(s.ProposeType(1, 0x0101, "params", 5, 3, 12, `{"gasPrice":"20"}`)), "parameter proposal")
		ids := s.Proposals()
		if len(ids) != 1 {
			s.expect(false, "one proposal")
			return
		}
		g := s.R.KR.HashOf(ids[0])
		before, after := 0, 0
		for i := 0; i < 12 && (before == 0 || after == 0); i++ {
			s.expect(OK(s.ProposeType(2, 0x0200, fmt.Sprintf("text %d", i), 5, 3, 12, "yes", "no")), "off-chain proposal")
			for _, id := range s.Proposals() {
				if id == ids[0] {
					continue
				}
				if c := bytes.Compare(s.R.KR.HashOf(id), g); c < 0 {
					before++
				} else {
					after++
				}
			}
			if before == 0 || after == 0 {
				before, after = 0, 0
			}
		}
		s.End()
		s.Blocks(1, allHdr)
		s.Begin(allHdr) // 5
		for _, id := range s.Proposals() {
			for v := 1; v <= 3; v++ {
				s.Vote(v, id, 0)
			}
		}
		s.End()
		s.Blocks(4, allHdr) // 6..9: closed after 8, adopted at 9
		s.Restart()
		s.Blocks(4, allHdr)   // applied at 12
		s.Begin(allHdr)       // 14
		s.Transfer(4, 5, "1") // at the price that is active now
		s.End()
		s.Blocks(1, allHdr)
	}},
	{"stake_amount_shapes", []string{"C02", "C11", "C05"}, fam(0), func(s *Script) {
		// amounts around the whole-power rule: q x 10^18 + r for small q and remainders that are 1, q, a multiple of q,
		// half a unit, one short of a unit; below one unit; zero - bonded to oneself and delegated; then released again
		s.Blocks(2, allHdr)
		s.Begin(allHdr) // 3
		for _, a := range []string{"1000000000000000001", "1500000000000000000", "2000000000000000002", "2000000000000000001",
			"3000000000000000003", "3000000000000000006", "4999999999999999999", "999999999999999999", "500000000000000000", "1", "0",
			"12000000000000000012", "2e18"} {
			s.Stake(4, 1, a)
			s.Stake(5, 5, a)
		}
		s.End()
		s.Blocks(1, allHdr)
		s.Begin(allHdr) // 5
		for _, id := range s.StakeIDs(4, 1) {
			s.Unstake(4, 1, id)
		}
		for _, id := range s.StakeIDs(5, 5) {
			s.Unstake(5, 5, id)
		}
		s.End()
		s.Blocks(6, allHdr)
	}},
	{"fractional_min_stake", []string{"C01", "C07", "C10"}, famWith(4, map[string]string{"minValidatorStake": "1500000000000000000"}), func(s *Script) {
		// the minimum validator stake is not a whole number of power units (1.5): validators of power 1 and 2 sit right at
		// and above the rounded minimum.  Proposals by them, delegations, a parameter change to another fractional value,
		// and restarts in between.
		s.Blocks(3, allHdr)
		s.Restart()
		s.Begin(allHdr) // 4
		s.Propose(1, 6, 2, 11, `{"minValidatorStake":"2500000000000000000"}`)
		s.Stake(5, 4, "1e18")
		s.Stake(6, 6, "2e18")
		s.End()
		s.Blocks(1, allHdr)
		s.Restart()
		s.Begin(allHdr) // 6
		for _, id := range s.Proposals() {
			for v := 1; v <= 4; v++ {
				s.Vote(v, id, 0)
			}
		}
		s.Stake(5, 3, "1e18")
		s.End()
		s.Blocks(5, allHdr) // applied at 11
		s.Restart()
		s.Begin(allHdr) // 12
		s.Propose(3, 14, 2, 19, `{"gasPrice":"11"}`)
		s.Stake(5, 3, "1e18")
		s.End()
		s.Blocks(3, allHdr)
	}},
	{"window_grows_one_stale", []string{"C14"}, fam(3), func(s *Script) { windowGrows(s, 3, []int64{5, 11, 15}) }},
	{"window_grows_two_stale", []string{"C14"}, fam(3), func(s *Script) { windowGrows(s, 2, []int64{4, 5, 11, 15}) }},
	{"jail_edges", []string{"C14", "C11", "C12", "C10"}, fam(3), func(s *Script) {
		// window 4, at least 2 signed.  A validator with two delegators misses the heights 4, 6 and 8: the first miss lies
		// exactly on the edge of the window of the third one (3 misses in [4..8]: stopped at block 9, with three stakes to
		// release).  Its power changes right before the last absence (the votes carry the power of four blocks ago).
		s.Begin(allHdr) // 1
		s.End()
		s.Begin(allHdr) // 2
		s.expect(OK(s.Stake(5, 2, "3e18")), "a5 -> a2")
		s.End()
		s.Begin(allHdr) // 3
		s.expect(OK(s.Stake(6, 2, "2e18")), "a6 -> a2")
		s.End()
		for h := 4; h <= 16; h++ {
			switch h {
			case 5, 7, 9:
				s.Begin(Hdr{Absent: []int{2}})
			default:
				s.Begin(allHdr)
			}
			if h == 8 {
				s.Stake(7, 2, "1e18") // the power changes one block before the last absence is reported
			}
			s.End()
		}
	}},
	{"foreign_unstake_small_set", []string{"C11", "C12", "C05"}, fam(1), func(s *Script) {
		// a single validator (no stake limiter): somebody else tries to release a delegator's stake, then the delegatee's
		// record is written again by a third party, then the owner releases it
		s.Blocks(2, allHdr)
		s.Begin(allHdr) // 3
		s.expect(OK(s.Stake(4, 1, "5e18")), "a4 -> a1")
		s.End()
		ids := s.StakeIDs(4, 1)
		if len(ids) != 1 {
			s.expect(false, "a4's stake exists")
			return
		}
		s.Begin(allHdr) // 4
		s.expect(!OK(s.Unstake(5, 1, ids[0])), "a5 tries to release a4's stake")
		s.expect(OK(s.Stake(6, 1, "2e18")), "a6 -> a1 (the record is written again)")
		s.End()
		s.Blocks(1, allHdr)
		s.Begin(allHdr) // 6
		s.expect(!OK(s.Unstake(1, 1, ids[0])), "the validator tries to release a4's stake")
		s.expect(OK(s.Unstake(4, 1, ids[0])), "a4 releases its own stake")
		s.End()
		s.Blocks(5, allHdr)
	}},
	{"limiter_refusal_then_more", []string{"C05", "C06", "C11"}, fam(3), func(s *Script) {
		// four validators of 100; at most 33 % of the bonded power may be released per block (delegations do not count).
		// 60, 80 and 1 are delegated; in the next block (541 bonded) 80 and 60 are released (25.9 %), the release of a
		// validator's own 100 is refused (44 %), and the release of 1 more must still be accepted (26.1 %)
		s.Blocks(3, allHdr)
		s.Begin(allHdr) // 4
		s.expect(OK(s.Stake(5, 1, "60e18")), "a5 -> a1: 60")
		s.expect(OK(s.Stake(6, 2, "80e18")), "a6 -> a2: 80")
		s.expect(OK(s.Stake(7, 3, "1e18")), "a7 -> a3: 1")
		s.End()
		s.Begin(allHdr) // 5
		for _, pr := range [][2]int{{6, 2}, {5, 1}} {
			if ids := s.StakeIDs(pr[0], pr[1]); len(ids) == 1 {
				s.expect(OK(s.Unstake(pr[0], pr[1], ids[0])), "a delegator leaves")
			}
		}
		if ids := s.StakeIDs(4, 4); len(ids) == 1 {
			s.expect(!OK(s.Unstake(4, 4, ids[0])), "a4's own 100 on top of that is refused (the block's limit)")
		}
		if ids := s.StakeIDs(7, 3); len(ids) == 1 {
			s.expect(OK(s.Unstake(7, 3, ids[0])), "1 more is within the limit")
		}
		s.End()
		s.Blocks(2, allHdr)
	}},
	{"restart_after_first_block", []string{"C10", "C07"}, fam(0), func(s *Script) {
		// the very first block already changes the staking ledger (a new validator, a delegation), and the process is
		// restarted right after it: version 1 is the only committed version, there is no version before it
		s.Begin(allHdr) // 1
		s.expect(OK(s.Stake(4, 4, "7e18")), "a4 becomes a validator in block 1")
		s.expect(OK(s.Stake(5, 1, "2e18")), "a5 -> a1 in block 1")
		s.End()
		s.Restart()
		s.Blocks(2, allHdr)
		s.Begin(allHdr) // 4
		if ids := s.StakeIDs(4, 4); len(ids) == 1 {
			s.expect(OK(s.Unstake(4, 4, ids[0])), "a4 leaves again")
		}
		s.End()
		s.Restart()
		s.Blocks(5, allHdr)
	}},
	{"self_unstake_after_restart", []string{"C11", "C10", "C12", "C07"}, fam(0), func(s *Script) {
		// stakes created in one life of the process are released in the next one: a validator with delegators withdraws
		// its only own stake (everybody is released), another one withdraws one of its two own stakes (it stays, smaller)
		s.Blocks(2, allHdr)
		s.Begin(allHdr) // 3
		s.expect(OK(s.Stake(4, 1, "5e18")), "a4 -> a1")
		s.expect(OK(s.Stake(2, 2, "3e18")), "a2 bonds 3 more to itself")
		s.expect(OK(s.Stake(5, 2, "4e18")), "a5 -> a2")
		s.End()
		s.Blocks(1, allHdr)
		s.Restart()
		s.Begin(allHdr) // 5
		if ids := s.StakeIDs(2, 2); len(ids) == 2 {
			s.expect(OK(s.Unstake(2, 2, ids[0])), "a2 withdraws one of its two own stakes")
		}
		s.End()
		s.Begin(allHdr) // 6
		if ids := s.StakeIDs(1, 1); len(ids) == 1 {
			s.expect(OK(s.Unstake(1, 1, ids[0])), "a1 withdraws its only own stake: a4 is released with it")
		}
		s.End()
		s.Blocks(2, allHdr)
		s.Restart()
		s.Begin(allHdr) // 9
		if ids := s.StakeIDs(2, 2); len(ids) == 1 {
			s.Unstake(2, 2, ids[0]) // the other own stake: a5 is released
		}
		s.Stake(3, 3, "2e18")
		s.End()
		s.Blocks(6, allHdr)
	}},
	{"tiny_voter_slashed", []string{"C15", "C14", "C07"}, fam(4), func(s *Script) {
		// powers 1,1,2,3 (total 7, slash ratio 50 %): half of power 1 is 0.  A voter of power 1 is accused after it voted:
		// its recorded power stays 1 and its vote stays cast; with it the option holds 5 of 7, without it 4.
		s.Blocks(2, allHdr)
		s.Begin(allHdr) // 3
		s.expect(OK(s.Propose(4, 5, 4, 13, `{"lazyRewardBlocks":"5"}`)), "a4 opens a proposal")
		s.End()
		p := s.Proposals()
		if len(p) != 1 {
			s.expect(false, "one proposal in voting")
			return
		}
		s.Blocks(1, allHdr)
		s.Begin(allHdr) // 5
		s.expect(OK(s.Vote(1, p[0], 0)), "a1 (1) votes")
		s.expect(OK(s.Vote(2, p[0], 0)), "a2 (1) votes")
		s.expect(OK(s.Vote(4, p[0], 0)), "a4 (3) votes")
		s.End()
		s.Begin(Hdr{Evidence: []int{1}}) // 6: a1 is accused; nothing can be cut from power 1
		s.End()
		s.Begin(Hdr{Evidence: []int{3}}) // 7: a3 (2, silent) is accused: 2 -> 1
		s.End()
		s.Blocks(8, allHdr)
	}},
	{"tiny_stakes_slashed", []string{"C12", "C11", "C14", "C07", "C10"}, fam(4), func(s *Script) {
		// every stake of the accused delegatee is too small to be cut (all are forfeited, the delegatee is left empty);
		// then a delegatee whose OWN stakes are all too small while the delegated ones survive: it is left with delegators
		// only, and one of them leaves
		s.Blocks(2, allHdr)
		s.Begin(allHdr) // 3
		s.expect(OK(s.Stake(5, 2, "1e18")), "a5 -> a2: 1")
		s.expect(OK(s.Stake(7, 7, "1e18")), "a7 bonds 1 to itself")
		s.expect(OK(s.Stake(7, 7, "1e18")), "a7 bonds 1 to itself again")
		s.End()
		id52 := s.StakeIDs(5, 2)
		if len(id52) != 1 {
			s.expect(false, "a5's stake at a2 exists")
			return
		}
		s.Begin(allHdr) // 4
		s.expect(OK(s.Stake(5, 7, "2e18")), "a5 -> a7: 2")
		s.expect(OK(s.Stake(6, 7, "2e18")), "a6 -> a7: 2")
		s.End()
		s.Blocks(3, allHdr)
		s.Begin(Hdr{Evidence: []int{2}}) // 8: a2 = 1 + 1, nothing survives
		s.End()
		s.Begin(allHdr)          // 9
		s.Unstake(5, 2, id52[0]) // the forfeited stake
		s.Stake(6, 2, "2e18")
		s.End()
		s.Begin(Hdr{Evidence: []int{7}}) // 10: a7 = (1 + 1) own + 2 + 2 delegated: own stakes forfeited, 1 + 1 survive
		s.End()
		s.Blocks(1, allHdr)
		s.Begin(allHdr) // 12
		if ids := s.StakeIDs(5, 7); len(ids) > 0 {
			s.Unstake(5, 7, ids[0])
		}
		s.End()
		s.Blocks(2, allHdr)
		s.Begin(allHdr) // 15
		if ids := s.StakeIDs(6, 7); len(ids) > 0 {
			s.Unstake(6, 7, ids[0])
		}
		s.Stake(7, 7, "3e18")
		s.End()
		s.Blocks(8, allHdr)
	}},
	{"evidence_after_close", []string{"C15", "C14"}, fam(2), func(s *Script) {
		// powers 5,8,10,12,20 (total 55, threshold 36, slash ratio 34 %): evidence against a voter arrives in the block
		// AFTER the window closed, before the proposals are settled. A: 35 of 55 at the close (one short), the slashing of
		// a silent voter lowers the threshold below 35. B: 37 of 55 at the close, the slashing of a yes-voter pushes the
		// tally below the (lowered) threshold. What counts is the tally when voting closed.
		s.Blocks(3, allHdr)
		s.Begin(allHdr) // 4
		s.expect(OK(s.Propose(5, 6, 2, 11, `{"lazyRewardBlocks":"5"}`)), "proposal A")
		s.expect(OK(s.Propose(4, 6, 2, 11, `{"minTrxGas":"20"}`)), "proposal B")
		s.End()
		p := s.Proposals()
		if len(p) != 2 {
			s.expect(false, "two proposals in voting")
			return
		}
		s.Blocks(1, allHdr)
		s.Begin(allHdr)    // 6
		s.Vote(5, p[0], 0) // A: 20 + 10 + 5 = 35
		s.Vote(3, p[0], 0)
		s.Vote(1, p[0], 0)
		s.Vote(5, p[1], 0) // B: 20 + 12 + 5 = 37
		s.Vote(4, p[1], 0)
		s.Vote(1, p[1], 0)
		s.End()
		s.Blocks(2, allHdr)              // 7, 8 = end of the window
		s.Begin(Hdr{Evidence: []int{4}}) // 9: a4 (silent on A, yes on B) is slashed after the close: 55 -> 51, threshold 34
		s.End()
		s.Blocks(6, allHdr)
	}},
	{"minstake_change", []string{"C10", "C06", "C07", "C15"}, fam(2), func(s *Script) {
		// powers 5,8,10,12,20 on five seats; governance raises the minimum validator stake to 6 (a1 falls out), later
		// lowers it to 1 (it comes back); self-stakings around the minimum in the blocks next to the switch
		s.Blocks(3, allHdr)
		s.Begin(allHdr) // 4
		s.expect(OK(s.Propose(5, 6, 2, 10, `{"minValidatorStake":"6000000000000000000"}`)), "proposal: minimum 6")
		s.End()
		p := s.Proposals()
		s.Blocks(1, allHdr)
		s.Begin(allHdr) // 6
		for _, v := range []int{5, 4, 3, 2} {
			if len(p) == 1 {
				s.Vote(v, p[0], 0)
			}
		}
		s.End()
		s.Blocks(3, allHdr)   // 7, 8, 9
		s.Begin(allHdr)       // 10: applied at the end of this block, in force from 11
		s.Stake(6, 6, "3e18") // allowed under the old minimum (2)
		s.End()
		s.Begin(allHdr)       // 11
		s.Stake(7, 7, "3e18") // refused under the new minimum (6)
		s.Stake(8, 8, "6e18") // allowed
		s.End()
		s.Begin(allHdr) // 12
		s.expect(OK(s.Propose(5, 14, 2, 18, `{"minValidatorStake":"1000000000000000000"}`)), "proposal: minimum 1")
		s.End()
		q := s.Proposals()
		s.Blocks(1, allHdr)
		s.Begin(allHdr) // 14
		for _, v := range []int{5, 4, 3, 2} {
			for _, id := range q {
				s.Vote(v, id, 0)
			}
		}
		s.End()
		s.Blocks(3, allHdr)   // 15..17
		s.Begin(allHdr)       // 18
		s.Stake(7, 7, "1e18") // still refused
		s.End()
		s.Begin(allHdr)       // 19
		s.Stake(7, 7, "1e18") // allowed under the lowered minimum
		s.End()
		s.Blocks(3, allHdr)
	}},
	{"unbond_across_restart", []string{"C12", "C07"}, fam(0), func(s *Script) {
		// stakes released before a restart mature after it: by an unstaking transaction, by a validator's own exit
		// (delegators force-released), and by downtime jailing; restarts at several distances from the refund height
		s.Blocks(2, allHdr)
		s.Begin(allHdr) // 3
		s.expect(OK(s.Stake(4, 1, "4e18")), "a4 -> a1")
		s.expect(OK(s.Stake(4, 1, "10e18")), "a4 -> a1 again")
		s.expect(OK(s.Stake(5, 2, "3e18")), "a5 -> a2")
		s.expect(OK(s.Stake(6, 3, "2e18")), "a6 -> a3")
		s.End()
		s.Begin(allHdr) // 4
		s.expect(OK(s.Stake(4, 1, "8e18")), "a4 -> a1 a third time: a1 holds more than two thirds of what remains later")
		s.End()
		s.Begin(allHdr) // 5
		s.expect(OK(s.Unstake(4, 1, s.StakeIDs(4, 1)[0])), "a4 releases its first stake (refund due at 8)")
		s.End()
		s.Restart()
		s.Begin(allHdr) // 6
		s.expect(OK(s.Unstake(3, 3, s.StakeIDs(3, 3)[0])), "a3 exits: a6 is force-released (refund due at 9)")
		s.End()
		s.Blocks(1, allHdr) // 7
		s.Restart()
		s.Blocks(1, allHdr)                        // 8: first refund, right after a restart
		for i := 0; i < 5 && s.R.Dead == ""; i++ { // 9..13: a2 is absent until it is jailed (a1 alone has more than two thirds)
			s.Begin(Hdr{Absent: []int{2}})
			s.End()
			if i == 2 {
				s.Restart()
			}
		}
		s.Restart()
		s.Blocks(6, allHdr)
	}},
	{"withdraw_without_issuance", []string{"C13", "C07", "C19"}, fam(0), func(s *Script) {
		// withdrawals by accounts that earn nothing in the block of the withdrawal: a delegator that left more than four
		// blocks ago, the delegators of an absent validator, then restarts and further withdrawals
		s.Blocks(2, allHdr)
		s.Begin(allHdr) // 3
		s.expect(OK(s.Stake(4, 1, "4e18")), "a4 -> a1")
		s.expect(OK(s.Stake(5, 3, "1e18")), "a5 -> a3")
		s.expect(OK(s.Stake(1, 1, "8e18")), "a1 adds to its own stake (so that a3 may be absent later)")
		s.End()
		s.Blocks(6, allHdr) // 4..9: both earn
		s.Begin(allHdr)     // 10
		s.expect(OK(s.Unstake(4, 1, s.StakeIDs(4, 1)[0])), "a4 leaves")
		s.End()
		s.Blocks(6, allHdr) // 11..16: a4 earns until 14 at most
		half := func(a int) string { return new(big.Int).Div(s.Cum(a), big.NewInt(2)).String() }
		s.Begin(allHdr) // 17
		s.expect(OK(s.Withdraw(4, half(4))), "a4 withdraws half, earning nothing any more")
		s.End()
		s.Restart()
		s.Begin(Hdr{Absent: []int{3}}) // 18: a3 did not sign: a5 earns nothing in this block
		s.expect(OK(s.Withdraw(5, half(5))), "a5 withdraws half in a block in which its validator was absent")
		s.expect(OK(s.Withdraw(4, s.Cum(4).String())), "a4 withdraws the rest")
		s.expect(!OK(s.Withdraw(4, "1")), "nothing is left for a4")
		s.End()
		s.Restart()
		s.Begin(allHdr) // 19
		s.expect(!OK(s.Withdraw(4, "1")), "still nothing after a restart")
		s.expect(OK(s.Withdraw(5, "1")), "a5 goes on")
		s.End()
		s.Blocks(2, allHdr)
	}},
	{"many_proposals_one_block", []string{"C01", "C15"}, fam(0), func(s *Script) {
		// six proposals with different parameters that are applied in the same block
		s.Blocks(3, allHdr)
		docs := []string{`{"gasPrice":"20"}`, `{"gasPrice":"30"}`, `{"minTrxGas":"15"}`, `{"slashRatio":"40"}`, `{"lazyRewardBlocks":"5"}`, `{"rewardPerPower":"3000000000"}`}
		s.Begin(allHdr) // 4
		for i, d := range docs {
			s.expect(OK(s.Propose(1+i%3, 6, 2, 10, d)), "proposal")
		}
		s.End()
		p := s.Proposals()
		s.Blocks(1, allHdr)
		s.Begin(allHdr) // 6
		for _, id := range p {
			s.Vote(1, id, 0)
			s.Vote(2, id, 0)
			s.Vote(3, id, 0)
		}
		s.End()
		s.Blocks(5, allHdr) // applied at 10, in force from 11
		for i := 0; i < 3; i++ {
			s.Begin(allHdr)
			s.Transfer(4, 5, "1e18")
			s.End()
		}
	}},
	{"forged_after_credit", []string{"C03", "C05", "C02"}, fam(0), func(s *Script) {
		// refused transactions (forged signature, wrong chain, a field changed after signing, bad nonce) that name as
		// receiver something an ACCEPTED transaction of the same block has just created or changed
		s.Blocks(2, allHdr)
		kr := s.R.KR
		chain := s.Sc.Genesis.ChainID
		forge := func(tx *rctypes.Trx, claimed, signer int, how, tag string) {
			bz := s.B.Sign(tx, signer, chain)
			if how == "chain" {
				bz = s.B.Sign(tx, claimed, chain+"-x")
			}
			s.expect(!OK(s.DeliverRaw(bz, how, tag)), "a transaction without a valid signature is refused: "+tag)
		}
		s.Begin(allHdr) // 3: a fresh account is paid, then forged transfers to it
		fresh := kr.Addr(11)
		s.expect(OK(s.TransferTo(4, fresh, "1000", 0)), "a4 pays a fresh address")
		forge(web3.NewTrxTransfer(kr.Addr(5), fresh, s.nonce(5), s.gas(), s.price(), Amt("1")), 5, 6, "wrongkey", "transfer:forged-to-fresh")
		forge(web3.NewTrxTransfer(kr.Addr(5), fresh, s.nonce(5), s.gas(), s.price(), Amt("1")), 5, 5, "chain", "transfer:wrongchain-to-fresh")
		txn := web3.NewTrxTransfer(kr.Addr(5), fresh, s.nonce(5)+3, s.gas(), s.price(), Amt("1"))
		s.expect(!OK(s.Deliver(txn, 5, "transfer:nonce+")), "a transfer to it with a nonce gap is refused")
		s.expect(OK(s.TransferTo(5, fresh, "7", 0)), "an honest transfer to it afterwards")
		s.End()
		s.Begin(allHdr) // 4: a new delegatee is created, then forged stakings to it; an existing account is changed, then a forged transfer to it
		s.expect(OK(s.Stake(5, 5, "3e18")), "a5 becomes a delegatee")
		forge(web3.NewTrxStaking(kr.Addr(6), kr.Addr(5), s.nonce(6), s.gas(), s.price(), Amt("1e18")), 6, 4, "wrongkey", "staking:forged-to-new-delegatee")
		s.expect(OK(s.Transfer(4, 6, "5e18")), "a6 receives")
		forge(web3.NewTrxTransfer(kr.Addr(4), kr.Addr(6), s.nonce(4), s.gas(), s.price(), Amt("1")), 4, 5, "wrongkey", "transfer:forged-to-changed")
		s.expect(OK(s.Stake(6, 5, "1e18")), "an honest delegation afterwards")
		s.End()
		s.Blocks(2, allHdr)
	}},
	{"two_proposals_one_block", []string{"C15", "C16"}, fam(0), func(s *Script) {
		s.Blocks(3, allHdr)
		s.Begin(allHdr)
		s.expect(OK(s.Propose(1, 6, 2, 10, `{"gasPrice":"20"}`)), "proposal 1")
		s.expect(OK(s.Propose(2, 6, 2, 10, `{"minTrxGas":"15"}`)), "proposal 2")
		s.End()
		p := s.Proposals()
		s.Blocks(1, allHdr)
		s.Begin(allHdr)
		for _, id := range p {
			s.Vote(1, id, 0)
			s.Vote(2, id, 0)
			s.Vote(3, id, 0)
		}
		s.End()
		s.Blocks(5, allHdr)
		for i := 0; i < 3; i++ {
			s.Begin(allHdr)
			s.Transfer(4, 5, "1e18")
			s.End()
		}
	}},
	{"price_change", []string{"C16", "C15"}, fam(0), func(s *Script) {
		s.Blocks(3, allHdr)
		s.Begin(allHdr)
		s.expect(OK(s.Propose(1, 6, 2, 10, `{"gasPrice":"25","minTrxGas":"12"}`)), "proposal")
		s.End()
		p := s.Proposals()
		s.Blocks(1, allHdr)
		s.Begin(allHdr)
		for v := 1; v <= 3 && len(p) == 1; v++ {
			s.Vote(v, p[0], 0)
		}
		s.End()
		for i := 0; i < 6; i++ {
			s.Begin(allHdr)
			// one transaction at the price that is active, one at the other price
			s.Transfer(4, 5, "1e18")
			tx := s.TxTransfer(5, 4, "1e17")
			if tx.GasPrice.Uint64() == 10 {
				tx.GasPrice = Amt("25")
			} else {
				tx.GasPrice = Amt("10")
			}
			s.expect(!OK(s.Deliver(tx, 5, "transfer:otherprice")), "a transaction at the inactive price fails")
			// gas limits around the minimum in force (10 before, 12 after the change)
			for _, g := range []uint64{10, 11, 12} {
				tx := s.TxTransfer(6, 4, "1e15")
				tx.Gas = g
				want := g >= s.gas()
				s.expect(OK(s.Deliver(tx, 6, fmt.Sprintf("transfer:gas%d", g))) == want, fmt.Sprintf("gas %d against the minimum in force", g))
			}
			s.End()
		}
	}},
	{"no_proposer_block", []string{"C02", "C16"}, fam(0), func(s *Script) {
		s.Blocks(2, allHdr)
		s.Begin(Hdr{Proposer: -1})
		s.Transfer(4, 5, "1e18")
		s.Transfer(5, 6, "1e17")
		s.End()
		s.Begin(Hdr{Proposer: 2})
		s.Transfer(4, 5, "1e18")
		s.Transfer(2, 6, "1e17") // the proposer pays a fee itself
		s.End()
		s.Blocks(1, allHdr)
	}},
	{"fee_edges", []string{"C16", "C05", "C04"}, fam(0), func(s *Script) {
		s.Blocks(2, allHdr)
		s.Begin(allHdr)
		mk := func(gas uint64, price string, tag string, want bool) {
			tx := s.TxTransfer(4, 5, "1e18")
			tx.Gas = gas
			tx.GasPrice = Amt(price)
			s.expect(OK(s.Deliver(tx, 4, tag)) == want, tag)
		}
		mk(9, "10", "transfer:gaslow", false)
		mk(10, "10", "transfer:gasmin", true)
		mk(11, "10", "transfer:gasabove", true)
		mk(10, "9", "transfer:pricelow", false)
		mk(10, "11", "transfer:pricehigh", false)
		mk(0, "10", "transfer:gaszero", false)
		mk(10, "0", "transfer:pricezero", false)
		mk(1<<63, "10", "transfer:gashuge", false)
		// exact funds: balance - fee succeeds, +1 fails
		v := s.View()
		bal := FromLimbs(v.Accts["a6"].Bal)
		fee := big.NewInt(100)
		tx := s.TxTransfer(6, 5, new(big.Int).Add(new(big.Int).Sub(bal, fee), big.NewInt(1)).String())
		s.expect(!OK(s.Deliver(tx, 6, "transfer:funds+1")), "funds short by one")
		tx = s.TxTransfer(6, 5, new(big.Int).Sub(bal, fee).String())
		s.expect(OK(s.Deliver(tx, 6, "transfer:fundsexact")), "exact funds")
		s.End()
		s.Begin(allHdr)
		// a fee of 2^61 x 10 (more than 64 bits): the sender pays it, the proposer receives it
		txb := s.TxTransfer(5, 4, "1e18")
		txb.Gas = 1 << 61
		s.expect(OK(s.Deliver(txb, 5, "transfer:fee>2^64")), "a fee above 2^64 is paid in full")
		s.expect(OK(s.Transfer(4, 5, "1e18")), "an ordinary fee in the same block")
		s.End()
		// the balance in the window amount <= balance < amount + fee, for every type that moves value
		set := func(a int, target *big.Int) { // leave account a with exactly `target` (it pays the fee of this transfer too)
			cur := FromLimbs(s.View().Accts[fmt.Sprintf("a%d", a)].Bal)
			out := new(big.Int).Sub(new(big.Int).Sub(cur, fee), target)
			if out.Sign() > 0 {
				s.expect(OK(s.Transfer(a, 4, out.String())), "set-up transfer")
			}
		}
		e18 := func(k int64) *big.Int { return new(big.Int).Mul(big.NewInt(k), E18) }
		s.Begin(allHdr)
		s.expect(OK(s.Transfer(4, 6, "10e18")), "fund a6 (it was drained above)")
		set(6, new(big.Int).Add(e18(3), big.NewInt(50))) // 3e18 + 50: enough for the amount, not for amount + fee (100)
		s.expect(!OK(s.Stake(6, 1, "3e18")), "staking with balance between amount and amount + fee fails")
		s.expect(!OK(s.Stake(6, 6, "3e18")), "self-staking likewise")
		s.expect(!OK(s.Transfer(6, 5, "3e18")), "transfer likewise")
		s.expect(OK(s.Transfer(5, 6, "50")), "top up to exactly amount + fee")
		s.expect(OK(s.Stake(6, 1, "3e18")), "staking with exactly amount + fee succeeds")
		s.expect(OK(s.Transfer(4, 5, "1e18")), "a bystander's transfer afterwards")
		s.End()
		s.Blocks(1, allHdr)
	}},
	{"voter_leaves_set", []string{"C15", "C10"}, fam(3), func(s *Script) {
		// four validators of power 100; a recorded voter leaves the validator set (it unstakes) after the proposal was
		// submitted and votes inside the window: its vote counts with the recorded power; a validator that joined later may not vote
		s.Blocks(3, allHdr)
		s.Begin(allHdr) // 4
		s.expect(OK(s.Propose(1, 6, 5, 14, `{"slashRatio":"30"}`)), "proposal (voters: the four validators)")
		s.End()
		p := s.Proposals()
		s.Begin(allHdr) // 5
		s.expect(OK(s.Unstake(4, 4, s.StakeIDs(4, 4)[0])), "a4 leaves (its removal reaches the consensus engine two blocks later)")
		s.expect(OK(s.Stake(5, 5, "150e18")), "a5 becomes a validator after the snapshot")
		s.End()
		s.Blocks(3, Hdr{}) // 6, 7, 8
		s.Begin(allHdr)    // 9: inside the window, a4 is no validator any more
		if len(p) == 1 {
			s.expect(OK(s.Vote(4, p[0], 0)), "the recorded voter that left the set votes")
			s.expect(OK(s.Vote(1, p[0], 0)), "a1 votes")
			s.expect(!OK(s.Vote(5, p[0], 0)), "the newcomer is no recorded voter")
			s.expect(OK(s.Vote(2, p[0], 0)), "a2 votes: 300 of 400")
		}
		s.End()
		s.Blocks(8, allHdr)
	}},
	{"nonce_replay", []string{"C04", "C05"}, fam(0), func(s *Script) {
		s.Blocks(2, allHdr)
		s.Begin(allHdr)
		tx0 := s.TxTransfer(4, 5, "1e18")
		bz0 := s.B.Sign(tx0, 4, s.Sc.Genesis.ChainID)
		s.expect(OK(s.DeliverRaw(bz0, "", "transfer")), "first delivery")
		s.expect(!OK(s.DeliverRaw(bz0, "", "replay:transfer")), "duplicate in the same block fails")
		tx2 := s.TxTransfer(4, 5, "1e18")
		tx2.Nonce += 1
		s.expect(!OK(s.Deliver(tx2, 4, "transfer:nonce+")), "nonce gap fails")
		s.End()
		s.Begin(allHdr)
		s.expect(!OK(s.DeliverRaw(bz0, "", "replay:transfer")), "replay in a later block fails")
		s.expect(OK(s.Stake(4, 4, "3e18")), "staking with the next nonce")
		s.expect(OK(s.Transfer(4, 5, "1e18")), "transfer with the next nonce")
		s.End()
	}},
	{"many_unbonding", []string{"C12", "C16", "C02"}, fam(2), func(s *Script) {
		// several stakes of several owners mature in the same block; the unbonding period changes meanwhile
		s.Blocks(2, allHdr)
		s.Begin(allHdr)
		for i := 6; i <= 9; i++ {
			s.Stake(i, 5, "2e18")
			s.Stake(i, 4, "1e18")
		}
		s.End()
		s.Begin(allHdr)
		s.expect(OK(s.Propose(5, 6, 2, 10, `{"lazyRewardBlocks":"6"}`)), "proposal changing the unbonding period")
		s.End()
		p := s.Proposals()
		s.Blocks(1, allHdr)
		s.Begin(allHdr) // 6
		for v := 1; v <= 5 && len(p) == 1; v++ {
			s.Vote(v, p[0], 0)
		}
		for i := 6; i <= 7; i++ {
			for _, id := range s.StakeIDs(i, 5) {
				s.Unstake(i, 5, id)
			}
		}
		s.End()
		s.Blocks(3, allHdr)
		s.Begin(allHdr) // 10: applied at the end of this block
		for _, id := range s.StakeIDs(8, 5) {
			s.Unstake(8, 5, id)
		}
		s.End()
		s.Begin(allHdr) // 11: new period in force
		for _, id := range s.StakeIDs(9, 5) {
			s.Unstake(9, 5, id)
		}
		s.End()
		s.Blocks(9, allHdr)
	}},
	{"validator_churn", []string{"C10", "C11", "C13"}, fam(1), func(s *Script) {
		// one genesis validator, three seats; candidates enter, overtake each other and leave
		s.Blocks(2, allHdr)
		s.Begin(allHdr)
		s.Stake(2, 2, "5e18")
		s.Stake(3, 3, "6e18")
		s.Stake(4, 4, "7e18")
		s.Stake(5, 5, "1e18") // below the minimum validator stake
		s.End()
		s.Blocks(2, allHdr)
		s.Begin(allHdr)
		s.Stake(6, 2, "2e18") // a2 overtakes a3/a4: ties and reordering
		s.Stake(6, 2, "1e18")
		s.End()
		s.Blocks(3, allHdr)
		s.Begin(allHdr)
		for _, id := range s.StakeIDs(4, 4) {
			s.Unstake(4, 4, id)
		}
		s.End()
		s.Blocks(6, allHdr)
	}},
	{"self_below_min", []string{"C10", "C11"}, fam(1), func(s *Script) {
		// a validator's own stake falls below the minimum while delegations keep its total power high
		s.Blocks(2, allHdr)
		s.Begin(allHdr)
		s.expect(OK(s.Stake(2, 2, "2e18")), "a2 becomes a validator candidate with the minimum self stake")
		s.expect(OK(s.Stake(2, 2, "1e18")), "a2 adds a small self stake")
		s.End()
		s.Blocks(1, allHdr)
		s.Begin(allHdr)
		s.expect(OK(s.Stake(6, 2, "6e18")), "a6 delegates to a2")
		s.End()
		s.Blocks(3, allHdr)
		s.Begin(allHdr)
		ids := s.StakeIDs(2, 2)
		s.expect(len(ids) == 2, "a2 has two self stakes")
		if len(ids) == 2 {
			s.expect(OK(s.Unstake(2, 2, ids[0])), "a2 releases its larger self stake: self power 1 < minimum 2, total 7")
		}
		s.End()
		s.Blocks(6, allHdr)
	}},
	{"query_in_flight", []string{"C19", "C06"}, fam(0), func(s *Script) {
		s.Blocks(3, allHdr)
		kr := s.R.KR
		ask := func() {
			for _, h := range []int64{0, s.H - 1, s.H, s.H + 1, 1} {
				s.Query("account", kr.Addr(4), h)
				s.Query("account", kr.Addr(5), h)
				s.Query("delegatee", kr.Addr(1), h)
				s.Query("reward", kr.Addr(1), h)
				s.Query("stakes/total_power", nil, h)
				s.Query("gov_params", nil, h)
				s.Query("stakes", kr.Addr(4), h)
			}
		}
		s.Begin(allHdr)
		ask()
		s.Transfer(4, 5, "3e18")
		ask()
		s.Stake(4, 1, "2e18")
		ask()
		s.Withdraw(1, "1")
		ask()
		s.do(Op{Kind: "end"})
		ask()
		s.Cons.ApplyUpdates(s.H, s.R.LastUpdates)
		s.do(Op{Kind: "commit"})
		ask()
		s.Restart()
		ask()
		s.Blocks(2, allHdr)
		ask()
	}},
	{"mutation_matrix", []string{"C03"}, fam(0), func(s *Script) { MutationMatrix(s, false) }},
	{"mutation_matrix_full", []string{"C03"}, fam(0), func(s *Script) { MutationMatrix(s, true) }},
	{"limiter_block", []string{"C06", "C05"}, fam(3), func(s *Script) {
		// four equal validators (stake limiter active): staking and unstaking against validators inside blocks
		s.Blocks(3, allHdr)
		s.Begin(allHdr)
		s.expect(OK(s.Stake(5, 1, "10e18")), "a5 delegates 10 to validator a1")
		s.expect(OK(s.Stake(6, 2, "10e18")), "a6 delegates 10 to validator a2")
		s.End()
		s.Begin(allHdr)
		s.expect(OK(s.Stake(5, 1, "5e18")), "a5 delegates 5 more to a1")
		s.expect(OK(s.Transfer(5, 6, "1e18")), "a transfer")
		ids := s.StakeIDs(6, 2)
		if len(ids) > 0 {
			s.expect(OK(s.Unstake(6, 2, ids[0])), "a6 releases its stake")
		}
		s.End()
		s.Blocks(2, allHdr)
	}},
	{"valcount_change", []string{"C07", "C10", "C15"}, fam(0), func(s *Script) {
		// governance lowers the maximum validator count from 4 to 2 while three validators are active;
		// the block in which the new value becomes active is a restart boundary of interest
		s.Blocks(3, allHdr)
		s.Begin(allHdr) // 4
		s.expect(OK(s.Propose(1, 6, 2, 10, `{"maxValidatorCnt":"2"}`)), "proposal to lower the validator count")
		s.expect(OK(s.Stake(4, 1, "3e18")), "a1 gets more power than the others")
		s.End()
		p := s.Proposals()
		s.Blocks(1, allHdr)
		s.Begin(allHdr) // 6
		for v := 1; v <= 3 && len(p) == 1; v++ {
			s.Vote(v, p[0], 0)
		}
		s.End()
		s.Blocks(8, allHdr)
	}},
	{"restart_truncated", []string{"C10", "C07"}, fam(1), func(s *Script) {
		// more eligible delegatees than seats (3): the consensus set is the top three by power, which is not the
		// first three in ledger (address) order; restarts while the truncation is active
		s.Blocks(2, allHdr)
		s.Begin(allHdr)
		s.expect(OK(s.Stake(2, 2, "30e18")), "a2 becomes a candidate")
		s.expect(OK(s.Stake(3, 3, "25e18")), "a3 becomes a candidate")
		s.expect(OK(s.Stake(4, 4, "8e18")), "a4 becomes a candidate")
		s.expect(OK(s.Stake(5, 5, "40e18")), "a5 becomes a candidate")
		s.expect(OK(s.Stake(6, 6, "3e18")), "a6 becomes a candidate")
		s.End()
		s.Blocks(3, allHdr)
		s.Restart()
		s.Blocks(2, allHdr)
		s.Begin(allHdr)
		s.expect(OK(s.Stake(4, 4, "20e18")), "a4 overtakes a3")
		s.End()
		s.Restart()
		s.Blocks(3, allHdr)
		s.Begin(allHdr)
		s.expect(OK(s.Stake(7, 1, "15e18")), "a delegation brings a1 back")
		s.End()
		s.Blocks(1, allHdr)
		s.Restart()
		s.Blocks(3, allHdr)
	}},
	{"unbond_period_shortened", []string{"C12", "C15"}, famWith(0, map[string]string{"lazyRewardBlocks": "10"}), func(s *Script) {
		// governance shortens the unbonding period while stakes are waiting under the old one: stakes released
		// afterwards mature before the older ones
		s.Blocks(2, allHdr)
		s.Begin(allHdr) // 3
		s.expect(OK(s.Stake(4, 1, "4e18")), "a4 -> a1")
		s.expect(OK(s.Stake(5, 1, "3e18")), "a5 -> a1")
		s.expect(OK(s.Stake(6, 2, "2e18")), "a6 -> a2")
		s.expect(OK(s.Stake(4, 2, "1e18")), "a4 -> a2")
		s.expect(OK(s.Stake(5, 3, "2e18")), "a5 -> a3")
		s.End()
		s.Begin(allHdr) // 4
		s.expect(OK(s.Propose(1, 6, 2, 10, `{"lazyRewardBlocks":"2"}`)), "proposal to shorten the unbonding period")
		s.End()
		p := s.Proposals()
		s.Blocks(1, allHdr)
		s.Begin(allHdr) // 6
		for v := 1; v <= 3 && len(p) == 1; v++ {
			s.Vote(v, p[0], 0)
		}
		s.End()
		s.Blocks(3, allHdr)
		// one release per block, heights 10..14; the new period is active from 11: the first stake (the only one
		// in the unbonding ledger at that time) waits under the old period, the next one matures long before it
		rel := [][2]int{{4, 1}, {5, 1}, {6, 2}, {4, 2}, {5, 3}}
		for _, r := range rel {
			s.Begin(allHdr)
			ids := s.StakeIDs(r[0], r[1])
			if len(ids) > 0 {
				s.expect(OK(s.Unstake(r[0], r[1], ids[0])), "release")
			} else {
				s.expect(false, "stake to release exists")
			}
			s.End()
		}
		s.Blocks(12, allHdr)
	}},
	{"checktx_not_delivered", []string{"C12", "C06", "C11"}, famWith(0, map[string]string{"maxUpdatableStakeRatio": "100"}), func(s *Script) {
		// mempool traffic that never makes it into a block must leave no trace: in particular the unstaking of a
		// validator's whole own stake (which force-releases its delegators) that is only checked, never delivered
		s.Blocks(2, allHdr)
		s.Begin(allHdr)
		s.expect(OK(s.Stake(4, 1, "4e18")), "a4 delegates to a1")
		s.expect(OK(s.Stake(5, 1, "3e18")), "a5 delegates to a1")
		s.End()
		s.Blocks(1, allHdr)
		s.Check(s.TxUnstake(1, 1, s.StakeIDs(1, 1)[0]), 1, "unstaking:checkonly")
		s.Check(s.TxStake(6, 2, "2e18"), 6, "staking:checkonly")
		s.Check(s.TxTransfer(4, 5, "7e18"), 4, "transfer:checkonly")
		s.Blocks(2, allHdr)
		s.Begin(allHdr)
		s.Check(s.TxUnstake(4, 1, s.StakeIDs(4, 1)[0]), 4, "unstaking:checkonly")
		s.Check(web3.NewTrxWithdraw(s.R.KR.Addr(1), s.R.KR.Addr(1), s.nonce(1), s.gas(), s.price(), Amt("5")), 1, "withdraw:checkonly")
		s.expect(OK(s.Transfer(5, 6, "1e18")), "a delivered transfer")
		s.End()
		s.Blocks(5, allHdr)
		s.Begin(allHdr)
		s.expect(OK(s.Unstake(4, 1, s.StakeIDs(4, 1)[0])), "a4 really releases its stake")
		s.End()
		s.Blocks(5, allHdr)
	}},
	{"wrap_amount", []string{"C05", "C02", "C09"}, fam(0), func(s *Script) {
		// amounts for which fee + amount wraps around 2^256, on transaction types that do not move the amount,
		// sent by accounts that cannot pay the fee
		s.Blocks(3, allHdr)
		s.Begin(allHdr)
		s.expect(OK(s.Stake(4, 1, "3e18")), "a4 delegates to a1")
		s.expect(OK(s.Propose(1, 6, 3, 11, `{"gasPrice":"20"}`)), "a1 opens a proposal")
		s.expect(OK(s.Transfer(4, 11, "50")), "a11 gets less than one fee")
		s.expect(OK(s.Transfer(4, 12, "100")), "a12 gets exactly one fee")
		s.End()
		s.Blocks(1, allHdr)
		s.Begin(allHdr) // 6: inside the voting window
		fee := new(big.Int).Mul(s.price().ToBig(), new(big.Int).SetUint64(s.gas()))
		two256 := new(big.Int).Lsh(big.NewInt(1), 256)
		for _, from := range []int{11, 12, 3, 4} {
			for _, d := range []int64{0, 1, 49, -1} {
				amt := u256(new(big.Int).Add(new(big.Int).Sub(two256, fee), big.NewInt(d)))
				tx := web3.NewTrxSetDoc(s.R.KR.Addr(from), s.nonce(from), s.gas(), s.price(), "wrapped", "wrapped")
				tx.Amount = amt
				s.expect(!OK(s.Deliver(tx, from, "setdoc:wrap")), "setdoc with a wrapping amount fails")
				if p := s.Proposals(); len(p) > 0 {
					tv := web3.NewTrxVoting(s.R.KR.Addr(from), types.ZeroAddress(), s.nonce(from), s.gas(), s.price(), s.R.KR.HashOf(p[0]), 0)
					tv.Amount = amt
					s.expect(!OK(s.Deliver(tv, from, "voting:wrap")), "vote with a wrapping amount fails")
				}
				if ids := s.StakeIDs(4, 1); len(ids) > 0 && from == 4 {
					tu := s.TxUnstake(4, 1, ids[0])
					tu.Amount = amt
					s.expect(!OK(s.Deliver(tu, from, "unstaking:wrap")), "unstaking with a wrapping amount fails")
				}
			}
		}
		s.End()
		s.Blocks(2, allHdr)
	}},
	{"setdoc_and_accounts", []string{"C05", "C19", "C04"}, fam(0), func(s *Script) {
		s.Blocks(2, allHdr)
		s.Begin(allHdr)
		s.expect(OK(s.SetDoc(4, "name-4", "https://example.org/4")), "setdoc")
		s.expect(!OK(s.SetDoc(5, string(make([]byte, 2049)), "u")), "setdoc with an over-long name fails")
		s.expect(!OK(s.SetDoc(5, "name-5", string(make([]byte, 2049)))), "setdoc with an over-long url fails")
		s.expect(OK(s.SetDoc(5, string(make([]byte, 2048)), string(make([]byte, 2048)))), "setdoc at the length limits")
		s.expect(OK(s.Transfer(4, 11, "2e18")), "transfer to an account that does not exist yet")
		s.End()
		s.Begin(allHdr)
		s.expect(OK(s.Transfer(11, 4, "1e18")), "the new account spends")
		s.End()
	}},
}

// ScenarioByName finds a directed scenario.
func ScenarioByName(n string) *Directed {
	for i := range Scenarios {
		if Scenarios[i].Name == n {
			return &Scenarios[i]
		}
	}
	return nil
}

// RunDirected executes the named scenarios (all if names is empty) and returns their scenario files.
func RunDirected(names []string, seed int64, tmp string, emit func(J), evm bool) (map[string]*Scenario, error) {
	out := map[string]*Scenario{}
	var list []Directed
	if len(names) == 0 {
		for _, d := range Scenarios {
			if !strings.HasPrefix(d.Name, "mutation_matrix") {
				list = append(list, d)
			}
		}
	} else {
		for _, n := range names {
			d := ScenarioByName(n)
			if d == nil {
				return nil, fmt.Errorf("unknown scenario %q", n)
			}
			list = append(list, *d)
		}
	}
	sort.SliceStable(list, func(i, j int) bool { return list[i].Name < list[j].Name })
	for _, d := range list {
		g, na := d.Family(seed)
		root, err := os.MkdirTemp(tmp, "dir-")
		if err != nil {
			return nil, err
		}
		s, err := NewScript(d.Name, g, na, root, emit)
		if err != nil {
			return nil, err
		}
		s.R.Opts = ProjOpts{EVM: evm}
		if pm := Call(func() { d.Run(s) }); pm != "" {
			emit(J{"ev": "Note", "scenario": d.Name, "unexpected": "scenario aborted: " + pm})
		}
		out[d.Name] = s.Sc
		s.R.Close()
		_ = os.RemoveAll(root)
	}
	return out, nil
}
