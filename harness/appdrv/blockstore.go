package appdrv

import (
	"sync"

	tmrpccore "github.com/tendermint/tendermint/rpc/core"
	tmtypes "github.com/tendermint/tendermint/types"
)

// stubStore stands in for Tendermint's block store: the vm_call query asks the
// RPC core for the header time of a block. It serves the synthetic headers the
// harness generates (BlockTime) for heights 1..height.
type stubStore struct {
	mu     sync.Mutex
	height int64
}

var theStore = &stubStore{}
var envOnce sync.Once

// SetStoreHeight tells the stub which blocks exist (the replica about to be queried).
func SetStoreHeight(h int64) {
	envOnce.Do(func() { tmrpccore.SetEnvironment(&tmrpccore.Environment{BlockStore: theStore}) })
	theStore.mu.Lock()
	theStore.height = h
	theStore.mu.Unlock()
}

func (s *stubStore) Base() int64 { return 1 }
func (s *stubStore) Height() int64 {
	s.mu.Lock()
	defer s.mu.Unlock()
	return s.height
}
func (s *stubStore) Size() int64                      { return s.Height() }
func (s *stubStore) LoadBaseMeta() *tmtypes.BlockMeta { return nil }
func (s *stubStore) LoadBlockMeta(height int64) *tmtypes.BlockMeta {
	return nil
}
func (s *stubStore) LoadBlock(height int64) *tmtypes.Block {
	if height < 1 || height > s.Height() {
		return nil
	}
	return &tmtypes.Block{Header: tmtypes.Header{Height: height, Time: BlockTime(height)}}
}
func (s *stubStore) SaveBlock(block *tmtypes.Block, blockParts *tmtypes.PartSet, seenCommit *tmtypes.Commit) {
}
func (s *stubStore) PruneBlocks(height int64) (uint64, error)            { return 0, nil }
func (s *stubStore) LoadBlockByHash(hash []byte) *tmtypes.Block          { return nil }
func (s *stubStore) LoadBlockPart(height int64, index int) *tmtypes.Part { return nil }
func (s *stubStore) LoadBlockCommit(height int64) *tmtypes.Commit        { return nil }
func (s *stubStore) LoadSeenCommit(height int64) *tmtypes.Commit         { return nil }
