package appdrv

import (
	"encoding/binary"
	"fmt"
	"math/big"
	"strings"
)

// A tiny EVM assembler (there is no Solidity compiler in the sandbox).
// Program text: whitespace separated tokens; an opcode name, a hex literal
// 0x.. (emitted as the smallest PUSHn), a decimal literal (PUSH), @label
// (PUSH2 of the label's offset), :label (JUMPDEST at this position), or
// $name (a 20-byte address substituted by the caller, PUSH20).

var opcodes = map[string]byte{
	"STOP": 0x00, "ADD": 0x01, "MUL": 0x02, "SUB": 0x03, "DIV": 0x04, "MOD": 0x06, "LT": 0x10, "GT": 0x11, "EQ": 0x14, "ISZERO": 0x15,
	"AND": 0x16, "OR": 0x17, "NOT": 0x19, "SHL": 0x1b, "SHR": 0x1c, "SHA3": 0x20,
	"ADDRESS": 0x30, "BALANCE": 0x31, "ORIGIN": 0x32, "CALLER": 0x33, "CALLVALUE": 0x34, "CALLDATALOAD": 0x35, "CALLDATASIZE": 0x36,
	"CALLDATACOPY": 0x37, "CODESIZE": 0x38, "CODECOPY": 0x39, "GASPRICE": 0x3a, "EXTCODESIZE": 0x3b, "RETURNDATASIZE": 0x3d, "RETURNDATACOPY": 0x3e,
	"EXTCODEHASH": 0x3f, "BLOCKHASH": 0x40, "COINBASE": 0x41, "TIMESTAMP": 0x42, "NUMBER": 0x43, "DIFFICULTY": 0x44, "GASLIMIT": 0x45,
	"CHAINID": 0x46, "SELFBALANCE": 0x47, "BASEFEE": 0x48,
	"POP": 0x50, "MLOAD": 0x51, "MSTORE": 0x52, "MSTORE8": 0x53, "SLOAD": 0x54, "SSTORE": 0x55, "JUMP": 0x56, "JUMPI": 0x57, "PC": 0x58,
	"MSIZE": 0x59, "GAS": 0x5a, "JUMPDEST": 0x5b,
	"DUP1": 0x80, "DUP2": 0x81, "DUP3": 0x82, "DUP4": 0x83, "DUP5": 0x84, "DUP6": 0x85, "DUP7": 0x86, "DUP8": 0x87, "SWAP1": 0x90, "SWAP2": 0x91, "SWAP3": 0x92,
	"LOG0": 0xa0, "LOG1": 0xa1, "LOG2": 0xa2,
	"CREATE": 0xf0, "CALL": 0xf1, "CALLCODE": 0xf2, "RETURN": 0xf3, "DELEGATECALL": 0xf4, "CREATE2": 0xf5, "STATICCALL": 0xfa,
	"REVERT": 0xfd, "INVALID": 0xfe, "SELFDESTRUCT": 0xff,
}

func pushBytes(b []byte) []byte {
	for len(b) > 1 && b[0] == 0 {
		b = b[1:]
	}
	if len(b) == 0 {
		b = []byte{0}
	}
	return append([]byte{byte(0x5f + len(b))}, b...)
}

// Asm assembles a program; addrs substitutes $name tokens.
func Asm(src string, addrs map[string][]byte) []byte {
	toks := strings.Fields(src)
	labels := map[string]int{}
	// two passes: label offsets are PUSH2 (fixed size)
	var out []byte
	for pass := 0; pass < 2; pass++ {
		out = nil
		for _, t := range toks {
			switch {
			case strings.HasPrefix(t, ":"):
				labels[t[1:]] = len(out)
				out = append(out, 0x5b)
			case strings.HasPrefix(t, "@"):
				var b [2]byte
				binary.BigEndian.PutUint16(b[:], uint16(labels[t[1:]]))
				out = append(out, 0x61, b[0], b[1])
			case strings.HasPrefix(t, "$"):
				a := addrs[t[1:]]
				if len(a) != 20 {
					a = make([]byte, 20)
				}
				out = append(out, 0x73)
				out = append(out, a...)
			case strings.HasPrefix(t, "0x"):
				n, ok := new(big.Int).SetString(t[2:], 16)
				if !ok {
					panic("bad hex literal " + t)
				}
				out = append(out, pushBytes(n.Bytes())...)
			case t[0] >= '0' && t[0] <= '9':
				n, ok := new(big.Int).SetString(t, 10)
				if !ok {
					panic("bad literal " + t)
				}
				out = append(out, pushBytes(n.Bytes())...)
			default:
				op, ok := opcodes[t]
				if !ok {
					panic("unknown opcode " + t)
				}
				out = append(out, op)
			}
		}
	}
	return out
}

// Deployer wraps runtime code into init code that returns it (optionally storing an initial value in slot 0).
func Deployer(runtime []byte, slot0 int64) []byte {
	pre := ""
	if slot0 != 0 {
		pre = fmt.Sprintf("%d 0 SSTORE ", slot0)
	}
	// the prefix length is needed for CODECOPY: assemble with a fixed-size offset (PUSH2)
	mk := func(off int) []byte {
		return Asm(fmt.Sprintf("%s%d 0x%04x 0 CODECOPY %d 0 RETURN", pre, len(runtime), off, len(runtime)), nil)
	}
	head := mk(0)
	// PUSH of the offset is minimal-size; iterate until stable
	for i := 0; i < 3; i++ {
		h2 := mk(len(head))
		if len(h2) == len(head) {
			head = h2
			break
		}
		head = h2
	}
	return append(head, runtime...)
}

// Program templates (runtime code). Calldata conventions are noted per template.
var Programs = map[string]string{
	// increments slot 0, returns the new value
	"counter": "0 SLOAD 1 ADD DUP1 0 SSTORE 0 MSTORE 32 0 RETURN",
	// forwards the received value to the address in calldata[0:32]; returns the success flag
	"forwarder": "0 0 0 0 CALLVALUE 0 CALLDATALOAD GAS CALL 0 MSTORE 32 0 RETURN",
	// stores calldata word 0 in slot calldata word 1, emits LOG1, returns caller's balance
	"store_log": "0 CALLDATALOAD 32 CALLDATALOAD SSTORE 0 CALLDATALOAD 0 MSTORE 0xabcd 32 0 LOG1 CALLER BALANCE 0 MSTORE 32 0 RETURN",
	// always reverts with 4 bytes of data after writing storage
	"reverter": "7 1 SSTORE 0xdeadbeef 0 MSTORE 4 28 REVERT",
	// calls $callee with half of the received value; ignores failure; then sends 1 wei to $fresh; writes the call result to slot 2
	"nested": "0 0 0 0 CALLVALUE 2 SWAP1 DIV $callee GAS CALL 2 SSTORE 0 0 0 0 1 $fresh GAS CALL POP STOP",
	// calls $callee with the received value, ignores the outcome and stops (touches nothing else)
	"nested_quiet": "0 0 0 0 CALLVALUE $callee GAS CALL POP STOP",
	// touches $fresh (BALANCE), sends it the whole received value, then reverts
	"touch_and_revert": "$fresh BALANCE POP 0 0 0 0 CALLVALUE $fresh GAS CALL POP 0 0 REVERT",
	// self-destructs to the address in calldata[0:32] (zero calldata: to itself)
	"suicide": "CALLDATASIZE @to JUMPI ADDRESS SELFDESTRUCT :to 0 CALLDATALOAD SELFDESTRUCT",
	// writes one slot several times in one transaction (set, change, clear), another one set-then-cleared, a third one
	// overwritten with its own value, then a fourth through a loop: SSTORE metering and refunds depend on the value a
	// slot had at the START of the transaction
	"restore": "1 0 SSTORE 2 0 SSTORE 0 0 SSTORE 3 1 SSTORE 0 1 SSTORE 2 SLOAD 2 SSTORE 5 3 SSTORE 6 3 SSTORE 7 3 SSTORE 3 SLOAD 0 MSTORE 32 0 RETURN",
	// a storage counter incremented three times in one call (slot written repeatedly with changing values)
	"triple_counter": "0 SLOAD 1 ADD 0 SSTORE 0 SLOAD 1 ADD 0 SSTORE 0 SLOAD 1 ADD DUP1 0 SSTORE 0 MSTORE 32 0 RETURN",
	// stores the block context (NUMBER, TIMESTAMP, COINBASE) in slots 0..2 and returns NUMBER
	"store_context": "NUMBER 0 SSTORE TIMESTAMP 1 SSTORE COINBASE 2 SSTORE NUMBER 0 MSTORE 32 0 RETURN",
	// self-destructs to the caller, whatever the calldata
	"suicide_caller": "CALLER SELFDESTRUCT",
	// infinite loop (out of gas)
	"loop": ":top @top JUMP",
	// invalid opcode
	"invalid": "INVALID",
	// jump to a non-JUMPDEST
	"badjump": "3 JUMP STOP",
	// returns BALANCE(calldata[0:32]) and SELFBALANCE
	"balances": "0 CALLDATALOAD BALANCE 0 MSTORE SELFBALANCE 32 MSTORE 64 0 RETURN",
	// creates a child contract (counter) with the received value, stores its address in slot 0, calls it
	"creator": "",
	// accepts value, does nothing
	"sink": "STOP",
	// returns block context: NUMBER, TIMESTAMP, COINBASE, GASPRICE, CHAINID, ORIGIN
	"context": "NUMBER 0 MSTORE TIMESTAMP 32 MSTORE COINBASE 64 MSTORE GASPRICE 96 MSTORE CHAINID 128 MSTORE ORIGIN 160 MSTORE GASLIMIT 192 MSTORE DIFFICULTY 224 MSTORE CALLER 256 MSTORE ADDRESS 288 MSTORE CALLVALUE 320 MSTORE 352 0 RETURN",
}

// CreatorRuntime builds the "creator" template: CREATE(value, init of counter), store address, call it.
func CreatorRuntime() []byte {
	child := Deployer(Asm(Programs["counter"], nil), 5)
	// copy the child init code (appended after this runtime) to memory, then CREATE
	body := func(off int) []byte {
		return Asm(fmt.Sprintf("%d 0x%04x 0 CODECOPY %d 0 CALLVALUE CREATE DUP1 0 SSTORE 0 0 0 0 0 DUP6 GAS CALL POP POP STOP", len(child), off, len(child)), nil)
	}
	b := body(0)
	for i := 0; i < 3; i++ {
		b2 := body(len(b))
		if len(b2) == len(b) {
			b = b2
			break
		}
		b = b2
	}
	return append(b, child...)
}

// CreateThenFailRuntime: creates a child (counter), stores its address, then fails: with REVERT (how = "REVERT"), with an
// invalid opcode ("INVALID"), or only if called with value ("0 0 REVERT" after CALLVALUE test is left to the caller).
// Nothing of the creation may survive - in the EVM's world or in the native ledger.
func CreateThenFailRuntime(how string) []byte {
	child := Deployer(Asm(Programs["counter"], nil), 5)
	body := func(off int) []byte {
		tail := "0 0 REVERT"
		if how == "INVALID" {
			tail = "INVALID"
		}
		return Asm(fmt.Sprintf("%d 0x%04x 0 CODECOPY %d 0 0 CREATE 0 SSTORE %s", len(child), off, len(child), tail), nil)
	}
	b := body(0)
	for i := 0; i < 3; i++ {
		b2 := body(len(b))
		if len(b2) == len(b) {
			b = b2
			break
		}
		b = b2
	}
	return append(b, child...)
}

// PrefundCreatorRuntime: forwards the call value to the address given in calldata[0:32] (the harness passes the address
// the next CREATE of this contract will produce), then creates a child (counter) there without value and stores its
// address: the child must own what was sent to its address earlier in the same transaction.
func PrefundCreatorRuntime() []byte {
	child := Deployer(Asm(Programs["counter"], nil), 5)
	body := func(off int) []byte {
		return Asm(fmt.Sprintf("0 0 0 0 CALLVALUE 0 CALLDATALOAD GAS CALL POP %d 0x%04x 0 CODECOPY %d 0 0 CREATE DUP1 0 SSTORE BALANCE 1 SSTORE STOP", len(child), off, len(child)), nil)
	}
	b := body(0)
	for i := 0; i < 3; i++ {
		b2 := body(len(b))
		if len(b2) == len(b) {
			b = b2
			break
		}
		b = b2
	}
	return append(b, child...)
}

func word(b []byte) []byte {
	w := make([]byte, 32)
	copy(w[32-len(b):], b)
	return w
}
