package appdrv

import (
	"crypto/sha256"
	"encoding/json"
	"fmt"
	"math"
	"math/big"
	"sort"

	"github.com/ethereum/go-ethereum/common"
	"github.com/rigochain/rigo-go/ctrlers/gov/proposal"
	"github.com/rigochain/rigo-go/ctrlers/stake"
	rctypes "github.com/rigochain/rigo-go/ctrlers/types"
	"github.com/rigochain/rigo-go/ledger"
)

// J is a JSON object.
type J = map[string]any

// Some / None encode optional values with one shape (TLC cannot compare a record with a string).
func Some(v any) J { return J{"some": true, "v": v} }
func None() J      { return J{"some": false} }

// small converts an int64 to an int that TLC can hold; values outside the
// 31-bit range are reported as -1 (the specifications treat a negative
// power/height as out of range).
func small(v int64) int {
	if v < 0 || v > math.MaxInt32/100 {
		return -1
	}
	return int(v)
}

// PowerUnit is the unit in which voting powers are rendered (set from the genesis of the replica being run; 1 unless
// the genesis says otherwise).  A "big unit" genesis (PowerUnit = 10^12) bonds amounts that are multiples of
// 10^12 x 10^18: its powers are far beyond the 32-bit integers of the specification's tools, and are rendered in units of
// 10^12 (a power that is not a whole number of units is rendered as -1, like one out of range).  The specification is
// evaluated with the correspondingly larger stake unit (UnitLimbs in BigNat.tla) and a reward per power unit.
var PowerUnit int64 = 1

// pw renders a voting power.
func pw(v int64) int {
	if PowerUnit > 1 {
		if v%PowerUnit != 0 {
			return -1
		}
		v /= PowerUnit
	}
	return small(v)
}

// ProjOpts selects the parts of the projection.
type ProjOpts struct {
	EVM bool // include contract storage/code digests (deep copy of the state DB: slower)
}

// Project returns the consensus view of the whole application state:
// committed trees overlaid with the consensus overlays of all seven ledgers
// (read without touching their caches), the volatile controller state and the
// running block context.
func Project(a *App, kr *Keyring, opts ProjOpts) J {
	vv := a.Core.VerifView()
	out := J{"h": small(vv.Height), "inblock": vv.InBlock, "lastH": small(vv.LastHeight),
		"feeSum": Limbs(vv.FeeSum), "txCount": vv.TxsCnt}

	accts := J{}
	addrOf := map[string][]byte{}
	vv.Acct.VerifLedger().VerifConsensusView(func(k ledger.LedgerKey, ac *rctypes.Account) {
		n := kr.NameAddr(ac.Address)
		accts[n] = projAcct(ac)
		addrOf[n] = append([]byte{}, ac.Address...)
	})
	out["accts"] = accts

	delegs := J{}
	vv.Stake.VerifDelegateeLedger().VerifConsensusView(func(k ledger.LedgerKey, d *stake.Delegatee) {
		delegs[kr.Name(d.Addr)] = projDelegatee(d, kr)
	})
	out["delegs"] = delegs

	var frozen []J
	vv.Stake.VerifFrozenLedger().VerifConsensusView(func(k ledger.LedgerKey, s *stake.Stake) {
		frozen = append(frozen, J{"key": kr.Tok(k[:]), "id": kr.Tok(s.TxHash), "from": kr.Name(s.From), "to": kr.Name(s.To),
			"pow": pw(s.Power), "refund": small(s.RefundHeight)})
	})
	out["frozen"] = orEmpty(frozen)

	rewards := J{}
	vv.Stake.VerifRewardLedger().VerifConsensusView(func(k ledger.LedgerKey, r *stake.Reward) {
		rewards[kr.Name(r.Address())] = projReward(r)
	})
	out["rewards"] = rewards

	props := J{}
	vv.Gov.VerifProposalLedger().VerifConsensusView(func(k ledger.LedgerKey, p *proposal.GovProposal) {
		props[kr.Tok(p.TxHash)] = projProposal(p, kr)
	})
	out["props"] = props
	fprops := J{}
	vv.Gov.VerifFrozenLedger().VerifConsensusView(func(k ledger.LedgerKey, p *proposal.GovProposal) {
		fprops[kr.Tok(p.TxHash)] = projProposal(p, kr)
	})
	out["fprops"] = fprops

	gp := vv.Gov.GetGovParams()
	out["gov"] = ProjGov(&gp)
	ledgerGov := None()
	vv.Gov.VerifParamsLedger().VerifConsensusView(func(k ledger.LedgerKey, p *rctypes.GovParams) {
		ledgerGov = Some(ProjGov(p))
	})
	out["govLedger"] = ledgerGov
	if pp := vv.Gov.VerifPendingParams(); pp != nil {
		out["govPending"] = Some(ProjGov(pp))
	} else {
		out["govPending"] = None()
	}

	sv := vv.Stake.VerifVolatile()
	ev := vv.EVM.VerifVolatile()
	out["vol"] = J{
		"lastVals":  projPowers(sv.LastValidators, kr),
		"allDelegs": projPowers(sv.AllDelegatees, kr),
		"limiter": J{"on": sv.LimiterOn, "base": pw(sv.LimiterBase), "updated": pw(sv.LimiterUpdated),
			"objs": projPowers(sv.LimiterObjs, kr)},
		"rwdHash": kr.Tok(sv.LastRwdHash), "evmRoot": kr.Tok(ev.LastRootHash), "evmHeight": small(ev.LastBlockHeight),
		"gasPool": LimbsU64(ev.GasPool),
	}

	if opts.EVM {
		out["evm"] = projEVM(a, kr, addrOf)
		// hidden state of the EVM bridge that later transactions of the block depend on: which accounts are currently
		// marked as copied into the EVM's state (they are not copied again, and they are written back)
		var synced []string
		for ad := range vv.EVM.VerifSynced() {
			synced = append(synced, kr.Name(ad[:]))
		}
		sort.Strings(synced)
		if synced == nil {
			synced = []string{}
		}
		out["vol"].(J)["evmSynced"] = synced
	}
	return out
}

func orEmpty(l []J) []J {
	if l == nil {
		return []J{}
	}
	return l
}

func projPowers(ps []stake.VerifPower, kr *Keyring) []J {
	out := []J{}
	for _, p := range ps {
		out = append(out, J{"v": kr.Name(p.Addr), "pow": pw(p.Power)})
	}
	return out
}

func projAcct(ac *rctypes.Account) J {
	code := 0
	if ac.Code != nil {
		code = 1
	}
	nonce := -1
	if ac.Nonce < math.MaxInt32 {
		nonce = int(ac.Nonce)
	}
	return J{"bal": Limbs(ac.Balance), "nonce": nonce, "code": code, "name": clip(ac.Name), "url": clip(ac.DocURL)}
}

func clip(s string) string {
	if len(s) > 24 {
		return fmt.Sprintf("%s~%d~%x", s[:8], len(s), sha256.Sum256([]byte(s)))[:40]
	}
	return s
}

func projStake(s *stake.Stake, kr *Keyring) J {
	return J{"id": kr.Tok(s.TxHash), "from": kr.Name(s.From), "to": kr.Name(s.To), "pow": pw(s.Power),
		"start": small(s.StartHeight), "refund": small(s.RefundHeight)}
}

func projDelegatee(d *stake.Delegatee, kr *Keyring) J {
	stakes := []J{}
	for _, s := range d.Stakes {
		stakes = append(stakes, projStake(s, kr))
	}
	missed := []int{}
	if d.NotSignedHeights != nil {
		for _, h := range d.NotSignedHeights.BlockHeights {
			missed = append(missed, small(h))
		}
	}
	return J{"self": pw(d.SelfPower), "total": pw(d.TotalPower), "slashed": pw(d.SlashedPower), "stakes": stakes,
		"missed": missed, "pub": len(d.PubKey)}
}

func projReward(r *stake.Reward) J {
	return J{"cum": Limbs(r.GetCumulated()), "issued": Limbs(r.GetIssued()), "withdrawn": Limbs(r.GetWithdrawn()),
		"slashed": Limbs(r.GetSlashed()), "h": small(r.Height())}
}

func projProposal(p *proposal.GovProposal, kr *Keyring) J {
	voters := J{}
	for _, v := range p.Voters {
		voters[kr.Name(v.Addr)] = J{"pow": pw(v.Power), "choice": int(v.Choice)}
	}
	opts := []J{}
	for _, o := range p.Options {
		opts = append(opts, J{"doc": kr.Tok(sha(o.Option())), "votes": pw(o.Votes())})
	}
	major := None()
	if p.MajorOption != nil {
		major = Some(J{"doc": kr.Tok(sha(p.MajorOption.Option())), "votes": pw(p.MajorOption.Votes())})
	}
	return J{"start": small(p.StartVotingHeight), "end": small(p.EndVotingHeight), "apply": small(p.ApplyingHeight),
		"total": pw(p.TotalVotingPower), "majority": pw(p.MajorityPower), "optType": int(p.OptType),
		"voters": voters, "opts": opts, "major": major}
}

func sha(b []byte) []byte {
	h := sha256.Sum256(b)
	return h[:]
}

// GovFields lists the governance parameters in a fixed order.
var GovFields = []string{"version", "maxValidatorCnt", "minValidatorStake", "minDelegatorStake", "rewardPerPower",
	"lazyRewardBlocks", "lazyApplyingBlocks", "gasPrice", "minTrxGas", "maxTrxGas", "maxBlockGas", "minVotingPeriodBlocks",
	"maxVotingPeriodBlocks", "minSelfStakeRatio", "maxUpdatableStakeRatio", "maxIndividualStakeRatio", "slashRatio",
	"signedBlocksWindow", "minSignedBlocks"}

var govLimbFields = map[string]bool{"minValidatorStake": true, "minDelegatorStake": true, "rewardPerPower": true, "gasPrice": true,
	"minTrxGas": true, "maxTrxGas": true, "maxBlockGas": true}

// ProjGov renders governance parameters: amount-valued and 64-bit fields as limbs, the rest as small ints.
func ProjGov(g *rctypes.GovParams) J {
	bz, err := g.MarshalJSON()
	if err != nil {
		return J{}
	}
	return GovDocFields(bz, true)
}

// GovDocFields converts a governance JSON document (integers as strings) into
// the abstract parameter record; with all=false only non-zero fields are kept.
func GovDocFields(doc []byte, all bool) J {
	raw := map[string]any{}
	if err := json.Unmarshal(doc, &raw); err != nil {
		return J{}
	}
	out := J{}
	for _, f := range GovFields {
		v, ok := raw[f]
		str := ""
		switch x := v.(type) {
		case string:
			str = x
		case float64:
			str = fmt.Sprintf("%.0f", x)
		}
		n := new(big.Int)
		if ok && str != "" {
			if _, good := n.SetString(str, 10); !good {
				n = new(big.Int)
			}
		}
		if !all && n.Sign() == 0 {
			continue
		}
		if f == "rewardPerPower" && PowerUnit > 1 {
			n.Mul(n, big.NewInt(PowerUnit)) // per rendered unit of power
		}
		if govLimbFields[f] {
			out[f] = LimbsBig(n)
		} else if n.IsInt64() {
			out[f] = small(n.Int64())
		} else {
			out[f] = -1
		}
	}
	return out
}

// projEVM digests code and storage of every account that has EVM code in a
// deep copy of the state DB the controller is executing on.
func projEVM(a *App, kr *Keyring, addrOf map[string][]byte) J {
	out := J{}
	st := a.Core.VerifView().EVM.VerifStateCopy()
	if st == nil {
		return out
	}
	var names []string
	byName := map[string]common.Address{}
	for name, addr := range addrOf {
		if len(addr) != 20 {
			continue
		}
		var ad common.Address
		copy(ad[:], addr)
		names = append(names, name)
		byName[name] = ad
	}
	sort.Strings(names)
	st.IntermediateRoot(true) // on the copy: pushes pending storage into the storage tries
	for _, n := range names {
		ad := byName[n]
		code := st.GetCode(ad)
		if len(code) == 0 {
			continue
		}
		root := common.Hash{}
		if tr := st.StorageTrie(ad); tr != nil {
			root = tr.Hash()
		}
		out[n] = J{"code": kr.Tok(sha(code)), "storage": kr.Tok(root.Bytes()),
			"evmBal": LimbsBig(st.GetBalance(ad)), "evmNonce": int(st.GetNonce(ad))}
	}
	return out
}

// StateDigest is a digest of the observable consensus state that is comparable
// across replicas and processes: an absent account and an empty one are the
// same; the per-block transaction counter and the EVM block gas pool are not
// state any property speaks about; names do not depend on appearance order.
func StateDigest(a *App, kr *Keyring) string {
	var tok string
	if pm := Call(func() {
		p := Project(a, kr.RawView(), ProjOpts{EVM: true})
		delete(p, "txCount")
		if vol, ok := p["vol"].(J); ok {
			delete(vol, "gasPool")
			// between a Commit and the next BeginBlock the running totals of the stake limiter are dead state: BeginBlock
			// resets them before anything reads them on the consensus path (a restarted process has them reset already)
			if ib, _ := p["inblock"].(bool); !ib {
				delete(vol, "limiter")
			}
		}
		if accts, ok := p["accts"].(J); ok {
			for k, x := range accts {
				ac := x.(J)
				if len(ac["bal"].([]int)) == 0 && ac["nonce"].(int) == 0 && ac["code"].(int) == 0 && ac["name"].(string) == "" && ac["url"].(string) == "" {
					delete(accts, k)
				}
			}
		}
		bz, _ := json.Marshal(p)
		tok = fmt.Sprintf("%x", sha256.Sum256(bz))[:16]
	}); pm != "" {
		return "PANIC:" + pm
	}
	return tok
}
