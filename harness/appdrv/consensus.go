package appdrv

import (
	"bytes"
	"encoding/hex"
	"fmt"
	"math/rand"
	"sort"

	"github.com/rigochain/rigo-go/types/crypto"
	abcitypes "github.com/tendermint/tendermint/abci/types"
)

// Val is one member of a consensus validator set.
type Val struct {
	Addr  string // hex
	Power int64
}

// MaxTotalVotingPower is Tendermint's limit on the sum of voting powers.
const MaxTotalVotingPower = int64(1<<63-1) / 8

// Consensus simulates the part of the Tendermint engine the application can
// observe: the validator-set pipeline (updates returned at height h take
// effect at h+2), LastCommitInfo, evidence and proposer selection.
type Consensus struct {
	Sets map[int64][]Val // Sets[h] = validator set of height h
	Last int64           // last decided height
}

func NewConsensus(g *GenesisSpec, kr *Keyring) *Consensus {
	var vs []Val
	for _, v := range g.Validators {
		vs = append(vs, Val{kr.AddrHex(v.Acct), v.Power})
	}
	sortVals(vs)
	return &Consensus{Sets: map[int64][]Val{1: vs, 2: vs}}
}

func sortVals(vs []Val) { sort.Slice(vs, func(i, j int) bool { return vs[i].Addr < vs[j].Addr }) }

// ApplyUpdates applies the updates returned by EndBlock(h) exactly as
// Tendermint 0.34 does (types.ValidatorSet.UpdateWithChangeSet) and returns
// an error text if Tendermint would reject them.
func (c *Consensus) ApplyUpdates(h int64, ups []abcitypes.ValidatorUpdate) string {
	base := c.Sets[h+1]
	cur := map[string]int64{}
	for _, v := range base {
		cur[v.Addr] = v.Power
	}
	seen := map[string]bool{}
	problem := ""
	for _, u := range ups {
		addr, xerr := crypto.PubBytes2Addr(u.PubKey.GetSecp256K1())
		if xerr != nil {
			problem = "update with undecodable public key"
			continue
		}
		a := hex.EncodeToString(addr)
		if seen[a] {
			problem = "duplicate entry for validator " + a
		}
		seen[a] = true
		if u.Power < 0 {
			problem = fmt.Sprintf("negative voting power %d", u.Power)
			continue
		}
		if u.Power == 0 {
			if _, ok := cur[a]; !ok {
				problem = "removal of a validator that is not in the set: " + a
			}
			delete(cur, a)
		} else {
			cur[a] = u.Power
		}
	}
	var next []Val
	total := int64(0)
	for a, p := range cur {
		next = append(next, Val{a, p})
		total += p
		if total > MaxTotalVotingPower || p > MaxTotalVotingPower {
			problem = "total voting power exceeds the maximum"
		}
	}
	if len(next) == 0 {
		problem = "validator set would become empty"
	}
	sortVals(next)
	c.Sets[h+2] = next
	c.Last = h
	return problem
}

// Header builds the BeginBlock inputs for height h: votes of Sets[h-1]
// (absent only while more than 2/3 of the power signs), a proposer from
// Sets[h] (or none), evidence against members of recent sets or a stranger.
func (c *Consensus) Header(h int64, rng *rand.Rand, pAbsent, pEvidence, pNoProposer float64, stranger string) BlockHeader {
	hd := BlockHeader{H: h}
	if set := c.Sets[h]; len(set) > 0 && rng.Float64() >= pNoProposer {
		hd.Proposer = set[rng.Intn(len(set))].Addr
	}
	if h >= 2 {
		prev := c.Sets[h-1]
		total := int64(0)
		for _, v := range prev {
			total += v.Power
		}
		absent := int64(0)
		order := rng.Perm(len(prev))
		signed := make([]bool, len(prev))
		for i := range signed {
			signed[i] = true
		}
		for _, i := range order {
			if rng.Float64() < pAbsent && 3*(total-absent-prev[i].Power) > 2*total {
				signed[i] = false
				absent += prev[i].Power
			}
		}
		for i, v := range prev {
			hd.Votes = append(hd.Votes, VoteInfo{v.Addr, v.Power, signed[i]})
		}
	}
	// evidence comes in bursts: once a block carries one piece, a second and third (against the same or another
	// validator) are likely
	pe := pEvidence
	for h >= 2 && rng.Float64() < pe && len(hd.Evidence) < 3 {
		pe = 0.45
		eh := h - 1 - int64(rng.Intn(3))
		if eh < 1 {
			eh = 1
		}
		set := c.Sets[eh]
		if rng.Intn(6) == 0 && stranger != "" {
			hd.Evidence = append(hd.Evidence, Evidence{stranger, 1, eh})
		} else if len(set) > 0 {
			v := set[rng.Intn(len(set))]
			hd.Evidence = append(hd.Evidence, Evidence{v.Addr, v.Power, eh})
		}
	}
	return hd
}

// CheckHeader verifies that a header is one Tendermint could produce (used to
// validate scenarios that do not come from Header).
func (c *Consensus) CheckHeader(hd *BlockHeader) string {
	if hd.H >= 2 {
		prev := c.Sets[hd.H-1]
		if len(prev) != len(hd.Votes) {
			return "votes are not the validator set of the previous height"
		}
		total, signed := int64(0), int64(0)
		for i, v := range prev {
			if hd.Votes[i].Addr != v.Addr || hd.Votes[i].Power != v.Power {
				return "votes are not the validator set of the previous height"
			}
			total += v.Power
			if hd.Votes[i].Signed {
				signed += v.Power
			}
		}
		if 3*signed <= 2*total {
			return "less than 2/3 of the power signed"
		}
	}
	if hd.Proposer != "" {
		ok := false
		for _, v := range c.Sets[hd.H] {
			if bytes.Equal(unhex(v.Addr), unhex(hd.Proposer)) {
				ok = true
			}
		}
		if !ok {
			return "proposer is not a validator of this height"
		}
	}
	return ""
}
