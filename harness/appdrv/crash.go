package appdrv

import (
	"encoding/hex"
	"fmt"
	"os"
	"path/filepath"

	"github.com/rigochain/rigo-go/libs/verifhook"
	abcitypes "github.com/tendermint/tendermint/abci/types"
)

// Crash-point enumeration (C08).  For one block of a history the block is
// executed once; the data directory is copied after every consensus call and,
// inside Commit, after every durable write (DurableWrite hook).  Each copy is
// what a process that died at that instant leaves behind.  Every copy is then
// reopened by a fresh application instance, Tendermint's handshake rule is
// applied (replay of the interrupted block if the application is behind),
// and the history is continued; the application hashes are compared with
// those of the never-crashed run.

type crashPoint struct {
	Label   string // e.g. "after:begin", "after:deliver#1", "commit:ledger.SaveVersion#3"
	Site    string
	Ordinal int // ordinal of the durable write inside the commit (0 = not inside Commit)
	Dir     string
	OpIdx   int // ops [blockStart, OpIdx) of the block had completed when the process died
}

func execRaw(r *Replica, op *Op) string {
	return Call(func() {
		switch op.Kind {
		case "begin":
			r.App.Core.BeginBlock(op.Hdr.Request())
		case "deliver":
			r.App.Core.DeliverTx(abcitypes.RequestDeliverTx{Tx: unhex(op.Tx)})
		case "end":
			r.App.Core.EndBlock(abcitypes.RequestEndBlock{Height: r.Height + 1})
		case "commit":
			r.App.Core.Commit()
			r.Height++
		}
	})
}

// consensusOps returns the indices of begin/deliver/end/commit ops, grouped by block.
func blocksOf(sc *Scenario) [][]int {
	var blocks [][]int
	var cur []int
	for i, op := range sc.Ops {
		switch op.Kind {
		case "begin":
			cur = []int{i}
		case "deliver", "end":
			cur = append(cur, i)
		case "commit":
			cur = append(cur, i)
			blocks = append(blocks, cur)
			cur = nil
		}
	}
	return blocks
}

// CrashSweep enumerates every crash point of the blocks [from, to] (1-based heights) of sc.
// cont = number of blocks to continue after recovery.
func CrashSweep(sc *Scenario, from, to, cont int, tmp string, emit func(J)) (int, error) {
	blocks := blocksOf(sc)
	if to > len(blocks) {
		to = len(blocks)
	}
	// never-crashed run: application hash after every block
	rootA, err := os.MkdirTemp(tmp, "crashA-")
	if err != nil {
		return 0, err
	}
	defer os.RemoveAll(rootA)
	var hashes []string // hashes[h-1]
	a, err := NewReplica("A", rootA, &sc.Genesis, sc.NAccts, func(J) {})
	if err != nil {
		return 0, err
	}
	a.NoProj, a.QueryAfterCommit = true, false
	durableOutsideCommit := ""
	inCommit := false
	verifhook.OnDurableWrite = func(site string) {
		if !inCommit && a.Height > 0 {
			durableOutsideCommit = site
		}
	}
	snapAt := map[int]string{} // height -> copy of the data directory after that block was committed
	for h, b := range blocks {
		for _, i := range b {
			op := &sc.Ops[i]
			if op.Kind == "commit" {
				inCommit = true
				resp := a.App.Core.Commit()
				inCommit = false
				a.Height++
				hashes = append(hashes, hex.EncodeToString(resp.Data))
				continue
			}
			if pm := execRaw(a, op); pm != "" {
				verifhook.OnDurableWrite = nil
				return 0, fmt.Errorf("the never-crashed run panicked at op %d: %s", i, pm)
			}
		}
		if h+1 >= from-1 && h+1 <= to {
			d := filepath.Join(rootA, fmt.Sprintf("after-%d", h+1))
			if err := CopyDir(a.App.Dir, d); err != nil {
				return 0, err
			}
			snapAt[h+1] = d
		}
	}
	verifhook.OnDurableWrite = nil
	a.Close()
	emit(J{"ev": "CrashBase", "blocks": len(blocks), "hashes": len(hashes), "durableOutsideCommit": durableOutsideCommit})

	n := 0
	for H := from; H <= to; H++ {
		start := snapAt[H-1]
		if H > 1 && start == "" {
			continue
		}
		// execute block H once on a copy of the state after H-1, taking a snapshot at every crash point
		root, err := os.MkdirTemp(tmp, "crashX-")
		if err != nil {
			return n, err
		}
		dir := filepath.Join(root, "X-0")
		if H > 1 {
			if err := CopyDir(start, dir); err != nil {
				return n, err
			}
		}
		app, info, err := OpenApp(dir)
		if err != nil {
			return n, err
		}
		if info.LastBlockHeight != int64(H-1) {
			return n, fmt.Errorf("snapshot after block %d reports height %d", H-1, info.LastBlockHeight)
		}
		x := &Replica{Name: "X", Root: root, App: app, KR: NewKeyring(sc.Genesis.Seed, sc.NAccts), G: &sc.Genesis, emit: func(J) {}, Height: int64(H - 1), NoProj: true}
		if H == 1 {
			// the genesis block: the consensus engine delivers InitChain to an application that reports height 0; the genesis
			// state then exists in memory only until the first commit
			if _, err := app.InitChain(&sc.Genesis, x.KR); err != nil {
				return n, fmt.Errorf("InitChain on a fresh directory failed: %v", err)
			}
		}
		var points []crashPoint
		snap := func(label, site string, ord, opIdx int) {
			d := filepath.Join(root, fmt.Sprintf("snap-%d", len(points)))
			if err := CopyDir(dir, d); err != nil {
				panic(err)
			}
			points = append(points, crashPoint{label, site, ord, d, opIdx})
		}
		b := blocks[H-1]
		if H == 1 {
			snap("after:initchain", "", 0, b[0])
		} else {
			snap("before:begin", "", 0, b[0])
		}
		ndeliver := 0
		for _, i := range b {
			op := &sc.Ops[i]
			if op.Kind == "commit" {
				ord := 0
				counts := map[string]int{}
				verifhook.OnDurableWrite = func(site string) {
					ord++
					counts[site]++
					snap(fmt.Sprintf("commit:%s#%d", site, counts[site]), site, ord, i)
				}
				pm := execRaw(x, op)
				verifhook.OnDurableWrite = nil
				if pm != "" {
					return n, fmt.Errorf("commit of block %d panicked: %s", H, pm)
				}
				continue
			}
			if pm := execRaw(x, op); pm != "" {
				return n, fmt.Errorf("block %d panicked at op %d: %s", H, i, pm)
			}
			label := "after:" + op.Kind
			if op.Kind == "deliver" {
				ndeliver++
				label = fmt.Sprintf("after:deliver#%d", ndeliver)
			}
			snap(label, "", 0, i+1)
		}
		x.Close()
		nWrites := 0
		for _, p := range points {
			if p.Ordinal > nWrites {
				nWrites = p.Ordinal
			}
		}
		// recover from every snapshot
		for _, p := range points {
			ev := J{"ev": "Crash", "block": H, "point": p.Label, "site": p.Site, "ordinal": p.Ordinal, "writes": nWrites, "tenth": H%10 == 0,
				"reopenPanic": "", "replayPanic": "", "infoH": -1, "infoHashOK": false, "refused": "", "continued": 0, "forkAt": 0}
			rec, info, err := OpenApp(p.Dir)
			if err != nil {
				ev["reopenPanic"] = err.Error()
				emit(ev)
				n++
				continue
			}
			y := &Replica{Name: "Y", Root: root, App: rec, KR: x.KR, G: &sc.Genesis, emit: func(J) {}, Height: info.LastBlockHeight, NoProj: true}
			ih := info.LastBlockHeight
			ev["infoH"] = small(ih)
			// the hash reported must be the one of the reported height
			if ih >= 1 && int(ih) <= len(hashes) {
				ev["infoHashOK"] = hex.EncodeToString(info.LastBlockAppHash) == hashes[ih-1]
			} else if ih == 0 {
				// nothing committed yet: the engine starts from the genesis (InitChain) whatever hash is reported as "none"
				ev["infoHashOK"] = len(info.LastBlockAppHash) == 0
			}
			// Tendermint's handshake: the block store has block H; the application may be at most at H
			if ih > int64(H) {
				ev["refused"] = "application height above the block store height"
			}
			if ih == 0 {
				// the engine's handshake delivers InitChain again to an application that reports height 0
				if _, err := rec.InitChain(&sc.Genesis, x.KR); err != nil {
					ev["replayPanic"] = "InitChain after the crash: " + clipLog(err.Error())
				}
			}
			// replay H (if the application is behind) and continue
			fork := 0
			cont0 := 0
			for hh := int(ih) + 1; hh <= H+cont && hh <= len(blocks) && ev["replayPanic"] == "" && ev["refused"] == ""; hh++ {
				for _, i := range blocks[hh-1] {
					op := &sc.Ops[i]
					if op.Kind == "commit" {
						var resp abcitypes.ResponseCommit
						pm := Call(func() { resp = y.App.Core.Commit() })
						if pm != "" {
							ev["replayPanic"] = fmt.Sprintf("Commit(%d): %s", hh, pm)
							break
						}
						y.Height++
						if hex.EncodeToString(resp.Data) != hashes[hh-1] && fork == 0 {
							fork = hh
						}
						continue
					}
					if pm := execRaw(y, op); pm != "" {
						ev["replayPanic"] = fmt.Sprintf("%s(%d): %s", op.Kind, hh, clipLog(pm))
						break
					}
				}
				if ev["replayPanic"] == "" {
					cont0++
				}
			}
			ev["continued"], ev["forkAt"] = cont0, fork
			y.Close()
			emit(ev)
			n++
		}
		os.RemoveAll(root)
	}
	return n, nil
}
