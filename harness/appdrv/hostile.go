package appdrv

import (
	"bytes"
	"fmt"
	"math"
	"math/rand"
	"os"
	"strings"

	"github.com/holiman/uint256"
	rctypes "github.com/rigochain/rigo-go/ctrlers/types"
	"github.com/rigochain/rigo-go/libs/web3"
	"github.com/rigochain/rigo-go/types"
	abcitypes "github.com/tendermint/tendermint/abci/types"
	"google.golang.org/protobuf/proto"
)

// Hostile input exploration (C09): every input is sent to the real
// application; a recovered panic, a state change caused by a rejected input or
// an unusable application afterwards is recorded.  Events are small (a digest
// of the projection instead of the projection).

type hostileRun struct {
	s     *Script
	rng   *rand.Rand
	emit  func(J)
	n     int
	stats map[string]int
}

func (h *hostileRun) stateTok() string { return StateDigest(h.s.R.App, h.s.R.KR) }

// layer classifies how deep an input got, from the response log.
func layer(code uint32, log string, decoded bool) string {
	switch {
	case code == 0:
		return "executed"
	case !decoded:
		return "decode"
	case bytes.Contains([]byte(log), []byte("not found account")):
		return "lookup"
	case bytes.Contains([]byte(log), []byte("signature")) || bytes.Contains([]byte(log), []byte("sig")):
		return "signature"
	case bytes.Contains([]byte(log), []byte("invalid address")) || bytes.Contains([]byte(log), []byte("gas")) || bytes.Contains([]byte(log), []byte("amount")):
		return "common0"
	case bytes.Contains([]byte(log), []byte("nonce")) || bytes.Contains([]byte(log), []byte("insufficient")):
		return "common1"
	}
	return "controller"
}

func (h *hostileRun) tx(call string, bz []byte, kind string) {
	r := h.s.R
	if r.Dead != "" {
		return
	}
	decoded := (&rctypes.Trx{}).Decode(bz) == nil
	ev := J{"ev": "Hostile", "call": call, "kind": kind, "len": len(bz), "n": h.n, "inblock": r.InBlock}
	h.n++
	var code uint32
	var log string
	pm := Call(func() {
		if call == "DeliverTx" {
			resp := r.App.Core.DeliverTx(abcitypes.RequestDeliverTx{Tx: bz})
			code, log = resp.Code, resp.Log
		} else {
			resp := r.App.Core.CheckTx(abcitypes.RequestCheckTx{Tx: bz, Type: abcitypes.CheckTxType_New})
			code, log = resp.Code, resp.Log
		}
	})
	ev["panic"], ev["ok"], ev["layer"] = pm, pm == "" && code == 0, layer(code, log, decoded)
	ev["state"] = h.stateTok()
	if pm != "" {
		ev["input"] = fmt.Sprintf("%x", bz)
		if len(bz) > 600 {
			ev["input"] = fmt.Sprintf("%x", bz[:600])
		}
		ev["log"] = clipLog(log)
		r.Dead = call + ": " + pm
	}
	h.stats[call+"/"+ev["layer"].(string)]++
	if ((len(kind) > 6 && kind[:6] == "opcode") || kind == "precompile") && code == 0 {
		h.stats["Sweep/"+kind]++
	}
	h.emit(ev)
}

func (h *hostileRun) query(path string, data []byte, height int64, kind string) {
	r := h.s.R
	if r.Dead != "" {
		return
	}
	ev := J{"ev": "Hostile", "call": "Query", "kind": kind, "path": clip(path), "len": len(data), "qh": small64(height), "n": h.n, "inblock": r.InBlock}
	h.n++
	SetStoreHeight(r.Height)
	var code uint32
	pm := Call(func() { code = r.App.Core.Query(abcitypes.RequestQuery{Path: path, Data: data, Height: height}).Code })
	ev["panic"], ev["ok"], ev["layer"] = pm, pm == "" && code == 0, "query"
	ev["state"] = h.stateTok()
	if pm != "" {
		ev["input"] = fmt.Sprintf("%s %x %d", path, data, height)
	}
	if !isPrintable(path) || len(path) > 24 {
		path = "<random>"
	}
	h.stats["Query/"+path]++
	h.emit(ev)
}

// probe: a well-formed transfer that must succeed (the application is still usable)
func (h *hostileRun) probe() {
	s := h.s
	if s.R.Dead != "" || !s.R.InBlock {
		return
	}
	before := h.stateTok()
	tx := s.TxTransfer(4, 5, "1000")
	bz := s.B.Sign(tx, 4, s.Sc.Genesis.ChainID)
	var code uint32
	pm := Call(func() { code = s.R.App.Core.DeliverTx(abcitypes.RequestDeliverTx{Tx: bz}).Code })
	s.Last = nil
	h.emit(J{"ev": "Probe", "panic": pm, "ok": pm == "" && code == 0, "before": before, "state": h.stateTok(), "n": h.n})
	h.n++
}

func randBytes(rng *rand.Rand, n int) []byte {
	b := make([]byte, n)
	rng.Read(b)
	return b
}

// envelope builds a wire transaction from raw proto fields (no consistency required).
func envelope(p *rctypes.TrxProto) []byte {
	bz, _ := proto.Marshal(p)
	return bz
}

func (h *hostileRun) validTxs() [][]byte {
	s := h.s
	kr := s.R.KR
	chain := s.Sc.Genesis.ChainID
	var out [][]byte
	add := func(tx *rctypes.Trx, signer int) { out = append(out, s.B.Sign(tx, signer, chain)) }
	add(s.TxTransfer(4, 5, "1e18"), 4)
	add(s.TxStake(4, 1, "2e18"), 4)
	add(web3.NewTrxWithdraw(kr.Addr(1), kr.Addr(1), s.nonce(1), s.gas(), s.price(), Amt("1")), 1)
	add(web3.NewTrxProposal(kr.Addr(1), types.ZeroAddress(), s.nonce(1), s.gas(), s.price(), "m", s.H+2, 3, s.H+8, 0x0101, []byte(`{"gasPrice":"20"}`)), 1)
	add(web3.NewTrxSetDoc(kr.Addr(4), s.nonce(4), s.gas(), s.price(), "n", "u"), 4)
	add(web3.NewTrxVoting(kr.Addr(2), types.ZeroAddress(), s.nonce(2), s.gas(), s.price(), randBytes(h.rng, 32), 0), 2)
	add(web3.NewTrxUnstaking(kr.Addr(1), kr.Addr(1), s.nonce(1), s.gas(), s.price(), randBytes(h.rng, 32)), 1)
	// well-formed un-staking of stakes that exist (the validators' own genesis stakes, the delegation made in the set-up)
	for _, pr := range [][2]int{{2, 2}, {3, 3}, {4, 1}} {
		if ids := s.StakeIDs(pr[0], pr[1]); len(ids) > 0 {
			add(web3.NewTrxUnstaking(kr.Addr(pr[0]), kr.Addr(pr[1]), s.nonce(pr[0]), s.gas(), s.price(), kr.HashOf(ids[0])), pr[0])
		}
	}
	add(s.TxStake(5, 2, "1e18"), 5)
	add(s.TxStake(2, 2, "1e18"), 2)
	add(web3.NewTrxContract(kr.Addr(4), types.ZeroAddress(), s.nonce(4), 100000, s.price(), uint256.NewInt(0), []byte{0x60, 0x00, 0x60, 0x00, 0xf3}), 4)
	return out
}

// hostileSigned: structurally valid, correctly signed transactions with hostile field values,
// so that the controller-level validation and execution are reached.
func (h *hostileRun) hostileSigned() [][]byte {
	s := h.s
	kr := s.R.KR
	rng := h.rng
	chain := s.Sc.Genesis.ChainID
	var out [][]byte
	sign := func(tx *rctypes.Trx, signer int) {
		defer func() { _ = recover() }() // the encoder itself may refuse an inconsistent transaction (e.g. invalid UTF-8)
		out = append(out, s.B.Sign(tx, signer, chain))
	}
	big1 := new(uint256.Int).SetAllOne()
	hs := []int64{0, -1, 1, s.H, s.H + 1, math.MaxInt64, math.MinInt64, math.MaxInt64 - 1, 1 << 32}
	pick := func() int64 { return hs[rng.Intn(len(hs))] }
	docs := [][]byte{[]byte(`{`), []byte(`[]`), []byte(`null`), []byte(`{"gasPrice":5}`), []byte(`{"gasPrice":"-1"}`), []byte(`{"gasPrice":"x"}`),
		[]byte(`{"maxValidatorCnt":"0"}`), []byte(`{"gasPrice":{"a":1}}`), []byte(`""`), nil, bytes.Repeat([]byte(`[`), 5000), []byte(`{"version":"99999999999999999999999"}`),
		[]byte(`{"minTrxGas":"18446744073709551615","gasPrice":"115792089237316195423570985008687907853269984665640564039457584007913129639935"}`)}
	for i := 0; i < 12; i++ {
		from := 1 + rng.Intn(5)
		nopt := rng.Intn(4)
		var opts [][]byte
		for j := 0; j < nopt; j++ {
			opts = append(opts, docs[rng.Intn(len(docs))])
		}
		tx := web3.NewTrxProposal(kr.Addr(from), types.ZeroAddress(), s.nonce(from), s.gas(), s.price(), string(randBytes(rng, rng.Intn(40))), pick(), pick(), pick(),
			[]int32{0x0101, 0x0200, 0, -1, math.MaxInt32}[rng.Intn(5)], opts...)
		if rng.Intn(4) == 0 {
			tx.To = kr.Addr(2)
		}
		sign(tx, from)
	}
	for i := 0; i < 8; i++ {
		from := 1 + rng.Intn(5)
		hashes := [][]byte{nil, {}, randBytes(rng, 31), randBytes(rng, 32), randBytes(rng, 33), make([]byte, 32)}
		for _, id := range s.Proposals() {
			hashes = append(hashes, kr.HashOf(id))
		}
		tx := web3.NewTrxVoting(kr.Addr(from), types.ZeroAddress(), s.nonce(from), s.gas(), s.price(), hashes[rng.Intn(len(hashes))],
			[]int32{0, 1, -1, 2, math.MaxInt32, math.MinInt32}[rng.Intn(6)])
		sign(tx, from)
	}
	for i := 0; i < 8; i++ {
		from := 1 + rng.Intn(5)
		hashes := [][]byte{nil, {}, randBytes(rng, 31), randBytes(rng, 32), randBytes(rng, 64)}
		to := [][]byte{kr.Addr(1), kr.Addr(6), types.ZeroAddress(), kr.Addr(from)}[rng.Intn(4)]
		tx := web3.NewTrxUnstaking(kr.Addr(from), to, s.nonce(from), s.gas(), s.price(), hashes[rng.Intn(len(hashes))])
		sign(tx, from)
	}
	amts := []*uint256.Int{uint256.NewInt(0), uint256.NewInt(1), Amt("1e18"), Amt("999999999999999999"), big1,
		new(uint256.Int).Lsh(uint256.NewInt(1), 255), new(uint256.Int).Sub(new(uint256.Int).Lsh(uint256.NewInt(1), 255), uint256.NewInt(1)),
		new(uint256.Int).Mul(new(uint256.Int).Lsh(uint256.NewInt(1), 63), Amt("1e18")), new(uint256.Int).Mul(new(uint256.Int).Lsh(uint256.NewInt(1), 64), Amt("1e18"))}
	for i := 0; i < 10; i++ {
		from := 1 + rng.Intn(5)
		to := [][]byte{kr.Addr(1), kr.Addr(6), types.ZeroAddress(), kr.Addr(from), kr.Addr(9)}[rng.Intn(5)]
		amt := amts[rng.Intn(len(amts))]
		var tx *rctypes.Trx
		switch rng.Intn(3) {
		case 0:
			tx = web3.NewTrxStaking(kr.Addr(from), to, s.nonce(from), s.gas(), s.price(), amt)
		case 1:
			tx = web3.NewTrxTransfer(kr.Addr(from), to, s.nonce(from), s.gas(), s.price(), amt)
		default:
			tx = web3.NewTrxWithdraw(kr.Addr(from), to, s.nonce(from), s.gas(), s.price(), amt)
			if rng.Intn(2) == 0 {
				tx.Amount = amt
			}
		}
		if rng.Intn(5) == 0 {
			tx.Gas = []uint64{0, 1, math.MaxInt64, math.MaxUint64, 1 << 63}[rng.Intn(5)]
		}
		sign(tx, from)
	}
	for i := 0; i < 6; i++ {
		from := 1 + rng.Intn(5)
		data := [][]byte{nil, {0xfe}, randBytes(rng, rng.Intn(200)), {0x60, 0x00, 0x60, 0x00, 0xfd}, {0x5b, 0x60, 0x00, 0x56}, bytes.Repeat([]byte{0x5b}, 30000)}[rng.Intn(6)]
		to := [][]byte{types.ZeroAddress(), kr.Addr(2), kr.Addr(9), nil}[rng.Intn(4)]
		gas := []uint64{21000, 53000, 100000, 3000000, 25000001, math.MaxInt64}[rng.Intn(6)]
		tx := web3.NewTrxContract(kr.Addr(from), to, s.nonce(from), gas, s.price(), amts[rng.Intn(4)], data)
		sign(tx, from)
	}
	for i := 0; i < 3; i++ {
		from := 1 + rng.Intn(5)
		tx := web3.NewTrxSetDoc(kr.Addr(from), s.nonce(from), s.gas(), s.price(), string(randBytes(rng, []int{0, 1, 2048, 2049, 100000}[rng.Intn(5)])), string(randBytes(rng, rng.Intn(3000))))
		sign(tx, from)
	}
	// valid UTF-8 around the 2048 limit of names and documents, counted in bytes and in characters: multi-byte characters
	// that end at, straddle or start at byte 2048
	for i := 0; i < 4; i++ {
		from := 1 + rng.Intn(5)
		ch := []string{"\u00e9", "\u20ac", "\U0001d11e"}[rng.Intn(3)] // 2, 3 and 4 bytes
		target := 2045 + rng.Intn(8)                                  // bytes
		n := target / len(ch)
		str := strings.Repeat("a", target-n*len(ch)) + strings.Repeat(ch, n)
		if rng.Intn(3) == 0 {
			str = strings.Repeat(ch, 2048) // 2048 characters, far more bytes
		}
		name, url := str, "u"
		if rng.Intn(2) == 0 {
			name, url = "n", str
		}
		sign(web3.NewTrxSetDoc(kr.Addr(from), s.nonce(from), s.gas(), s.price(), name, url), from)
	}
	// payload of another type / type code outside 1..8, signed
	for i := 0; i < 6; i++ {
		from := 1 + rng.Intn(5)
		tx := s.TxTransfer(from, 1+rng.Intn(6), "1")
		tx.Type = []int32{0, 9, -1, math.MaxInt32, 3, 4, 5, 6, 7, 8}[rng.Intn(10)]
		func() {
			defer func() { _ = recover() }() // signing may reject an inconsistent transaction
			sign(tx, from)
		}()
	}
	return out
}

// hostileEnvelopes: wire-level garbage.
func (h *hostileRun) hostileEnvelopes(valid [][]byte) [][]byte {
	rng := h.rng
	kr := h.s.R.KR
	var out [][]byte
	for i := 0; i < 10; i++ {
		out = append(out, randBytes(rng, []int{0, 1, 2, 5, 20, 64, 100, 300, 5000}[rng.Intn(9)]))
	}
	for _, v := range valid {
		for k := 0; k < 6; k++ {
			c := append([]byte{}, v...)
			switch rng.Intn(4) {
			case 0:
				c = c[:rng.Intn(len(c))]
			case 1:
				c[rng.Intn(len(c))] ^= byte(1 << uint(rng.Intn(8)))
			case 2:
				c = append(c, randBytes(rng, 1+rng.Intn(20))...)
			case 3:
				i, j := rng.Intn(len(c)), rng.Intn(len(c))
				c[i], c[j] = c[j], c[i]
			}
			out = append(out, c)
		}
	}
	addrs := [][]byte{nil, {}, randBytes(rng, 19), randBytes(rng, 20), randBytes(rng, 21), randBytes(rng, 32), kr.Addr(4), kr.Addr(1), types.ZeroAddress()}
	amts := [][]byte{nil, {0}, bytes.Repeat([]byte{0xff}, 32), bytes.Repeat([]byte{0xff}, 33), bytes.Repeat([]byte{0xff}, 64), {1}}
	for i := 0; i < 40; i++ {
		p := &rctypes.TrxProto{
			Version: uint32(rng.Intn(3)), Time: []int64{0, -1, math.MaxInt64, 1700000000000000000}[rng.Intn(4)],
			Nonce: []uint64{0, 1, math.MaxUint64}[rng.Intn(3)], From: addrs[rng.Intn(len(addrs))], To: addrs[rng.Intn(len(addrs))],
			XAmount: amts[rng.Intn(len(amts))], Gas: []uint64{0, 10, math.MaxInt64, math.MaxUint64}[rng.Intn(4)], XGasPrice: amts[rng.Intn(len(amts))],
			Type:     []int32{0, 1, 2, 3, 4, 5, 6, 7, 8, 9, -1, math.MaxInt32}[rng.Intn(12)],
			XPayload: [][]byte{nil, {}, randBytes(rng, 3), randBytes(rng, 40), bytes.Repeat([]byte{0x0a}, 200)}[rng.Intn(5)],
			Sig:      [][]byte{nil, randBytes(rng, 64), randBytes(rng, 65), randBytes(rng, 66), make([]byte, 65)}[rng.Intn(5)],
		}
		out = append(out, envelope(p))
	}
	return out
}

// hostileFields: every valid transaction with exactly ONE wire field replaced by a hostile value, everything else
// (including the rest of the signature context) left as it was - the inputs that pass every check made before the
// code that handles the replaced field.
func (h *hostileRun) hostileFields(valid [][]byte) [][]byte {
	rng := h.rng
	var out [][]byte
	lens := []int{0, 1, 19, 21, 31, 32, 33, 63, 64, 66, 130}
	for _, v := range valid {
		base := &rctypes.TrxProto{}
		if err := proto.Unmarshal(v, base); err != nil {
			continue
		}
		mut := func(f func(p *rctypes.TrxProto)) {
			p := proto.Clone(base).(*rctypes.TrxProto)
			f(p)
			out = append(out, envelope(p))
		}
		for _, n := range lens {
			n := n
			mut(func(p *rctypes.TrxProto) { // truncated / padded signature (the real one as far as it goes)
				sig := append([]byte{}, p.Sig...)
				for len(sig) < n {
					sig = append(sig, byte(rng.Intn(256)))
				}
				p.Sig = sig[:n]
			})
		}
		mut(func(p *rctypes.TrxProto) { p.Sig[64] += 27 })
		mut(func(p *rctypes.TrxProto) { p.Sig[64] = 4 })
		mut(func(p *rctypes.TrxProto) { p.Sig[64] = 0xff })
		mut(func(p *rctypes.TrxProto) { // r or s out of range
			for i := 0; i < 32; i++ {
				p.Sig[i] = 0xff
			}
		})
		mut(func(p *rctypes.TrxProto) {
			for i := 32; i < 64; i++ {
				p.Sig[i] = 0
			}
		})
		for _, n := range []int{0, 1, 19, 21, 32} {
			n := n
			mut(func(p *rctypes.TrxProto) { p.From = randBytes(rng, n) })
			mut(func(p *rctypes.TrxProto) { p.To = randBytes(rng, n) })
			mut(func(p *rctypes.TrxProto) {
				if n <= len(p.From) {
					p.From = p.From[:n]
				}
			})
		}
		for _, b := range [][]byte{nil, {}, {0}, bytes.Repeat([]byte{0xff}, 32), bytes.Repeat([]byte{0xff}, 33), bytes.Repeat([]byte{0x80}, 40)} {
			b := b
			mut(func(p *rctypes.TrxProto) { p.XAmount = b })
			mut(func(p *rctypes.TrxProto) { p.XGasPrice = b })
		}
		for _, g := range []uint64{0, 1, math.MaxInt64, math.MaxUint64} {
			g := g
			mut(func(p *rctypes.TrxProto) { p.Gas = g })
			mut(func(p *rctypes.TrxProto) { p.Nonce = g })
		}
		for _, t := range []int32{0, -1, 9, 100, math.MaxInt32, math.MinInt32} {
			t := t
			mut(func(p *rctypes.TrxProto) { p.Type = t })
		}
		for t := int32(1); t <= 8; t++ {
			t := t
			mut(func(p *rctypes.TrxProto) { p.Type = t }) // the payload of another type
		}
		for _, pl := range [][]byte{nil, {}, {0xff}, randBytes(rng, 7), bytes.Repeat([]byte{0x0a, 0x7f}, 300)} {
			pl := pl
			mut(func(p *rctypes.TrxProto) { p.XPayload = pl })
		}
		mut(func(p *rctypes.TrxProto) {
			if len(p.XPayload) > 1 {
				p.XPayload = p.XPayload[:len(p.XPayload)/2]
			}
		})
		for _, tm := range []int64{0, -1, math.MinInt64, math.MaxInt64} {
			tm := tm
			mut(func(p *rctypes.TrxProto) { p.Time = tm })
		}
		mut(func(p *rctypes.TrxProto) { p.Version = math.MaxUint32 })
	}
	return out
}

func (h *hostileRun) queries() {
	rng := h.rng
	r := h.s.R
	kr := r.KR
	paths := []string{"account", "stakes", "stakes/total_power", "stakes/voting_power", "delegatee", "reward", "proposal", "gov_params", "vm_call", "", "unknown", "account/", string(randBytes(rng, 8))}
	datas := [][]byte{nil, {}, {1}, randBytes(rng, 19), kr.Addr(1), kr.Addr(4), randBytes(rng, 21), randBytes(rng, 32), randBytes(rng, 39), randBytes(rng, 40), randBytes(rng, 41),
		append(append([]byte{}, kr.Addr(4)...), kr.Addr(5)...), append(append(append([]byte{}, kr.Addr(4)...), types.ZeroAddress()...), 0x60, 0x00), randBytes(rng, 500)}
	heights := []int64{0, -1, 1, r.Height, r.Height - 1, r.Height + 1, r.Height + 100, math.MaxInt64, math.MinInt64, -r.Height}
	for _, p := range paths {
		for k := 0; k < 6; k++ {
			h.query(p, datas[rng.Intn(len(datas))], heights[rng.Intn(len(heights))], "query")
		}
	}
}

// opcodeSweep executes every byte value 0x00..0xff as an instruction: once as the only instruction of a contract's
// init code (with eight arguments on the stack: all 0, all 1 or all 2^256-1, by variant), and - for the instructions
// that read the transaction / block environment - as deployed code reached by a contract call, by a native transfer
// and by the read-only vm_call query.  Nothing is expected of the outcomes; the application must stay alive and usable.
func (h *hostileRun) opcodeSweep(variant int) {
	s := h.s
	kr := s.R.KR
	chain := s.Sc.Genesis.ChainID
	arg := [][]byte{{0x60, 0x00}, {0x60, 0x01}, append([]byte{0x7f}, bytes.Repeat([]byte{0xff}, 32)...)}[variant%3]
	program := func(op int) []byte {
		var c []byte
		for k := 0; k < 8; k++ {
			c = append(c, arg...)
		}
		return append(c, byte(op), 0x00)
	}
	deliver := func(from int, to []byte, data []byte, kind string) {
		s.Last = nil
		tx := web3.NewTrxContract(kr.Addr(from), to, s.nonce(from), 100000, s.price(), uint256.NewInt(0), data)
		h.tx("DeliverTx", s.B.Sign(tx, from, chain), kind)
	}
	for op := 0; op < 256 && s.R.Dead == ""; op++ {
		if op%128 == 0 {
			s.Last = nil
			s.Begin(allHdr)
			h.emit(J{"ev": "Sync", "state": h.stateTok()})
		}
		deliver(4+op%2, types.ZeroAddress(), program(op), "opcode-init")
		if op%128 == 127 {
			h.probe()
			s.Last = nil
			s.End()
			h.emit(J{"ev": "Sync", "state": h.stateTok()})
		}
	}
	if s.R.Dead != "" {
		return
	}
	// the precompiled contracts (0x01 .. 0x0a), called directly with inputs of their own shapes: empty, zeros, random,
	// and for the signature recovery well-formed inputs whose r is small (about half of those are the x-coordinate of
	// no curve point: nothing can be recovered)
	s.Last = nil
	s.Begin(allHdr)
	h.emit(J{"ev": "Sync", "state": h.stateTok()})
	for pc := 1; pc <= 10 && s.R.Dead == ""; pc++ {
		to := make([]byte, 20)
		to[19] = byte(pc)
		inputs := [][]byte{nil, make([]byte, 32), make([]byte, 128), randBytes(h.rng, 64), randBytes(h.rng, 128), randBytes(h.rng, 192), randBytes(h.rng, 213)}
		if pc == 1 {
			for r := 1; r <= 6; r++ {
				in := make([]byte, 128)
				copy(in, randBytes(h.rng, 32))
				in[63] = []byte{27, 28, 0, 1}[(r+variant)%4]
				in[95] = byte(r)
				in[127] = 1
				inputs = append(inputs, in)
			}
		}
		for k, in := range inputs {
			deliver(4+k%2, to, in, "precompile")
		}
	}
	h.probe()
	if s.R.Dead != "" {
		return
	}
	s.Last = nil
	s.End()
	h.emit(J{"ev": "Sync", "state": h.stateTok()})
	var addrs [][]byte
	s.Last = nil
	s.Begin(allHdr)
	h.emit(J{"ev": "Sync", "state": h.stateTok()})
	for op := 0x30; op <= 0x4a && s.R.Dead == ""; op++ {
		addrs = append(addrs, s.CreateAddr(4))
		deliver(4, types.ZeroAddress(), Deployer(program(op), 0), "opcode-deploy")
	}
	for i, a := range addrs {
		if s.R.Dead != "" {
			break
		}
		deliver(5, a, []byte{byte(i)}, "opcode-call")
		s.Last = nil
		tx := web3.NewTrxTransfer(kr.Addr(5), a, s.nonce(5), 100000, s.price(), uint256.NewInt(uint64(variant)))
		h.tx("DeliverTx", s.B.Sign(tx, 5, chain), "opcode-transfer")
		h.query("vm_call", append(append(append([]byte{}, kr.Addr(5)...), a...), byte(i)), 0, "opcode-query")
	}
	h.probe()
	if s.R.Dead == "" {
		s.Last = nil
		s.End()
		h.emit(J{"ev": "Sync", "state": h.stateTok()})
		for _, a := range addrs {
			h.query("vm_call", append(append([]byte{}, kr.Addr(5)...), a...), 0, "opcode-query")
		}
	}
}

// RunHostile explores hostile inputs on one application instance for `rounds` blocks.
func RunHostile(seed int64, rounds int, tmp string, emit func(J)) (map[string]int, string, error) {
	g, na := Family(int(seed%2)*3, seed) // families 0 and 3
	root, err := os.MkdirTemp(tmp, "hostile-")
	if err != nil {
		return nil, "", err
	}
	defer os.RemoveAll(root)
	s, err := NewScript("hostile", g, na, root, func(J) {})
	if err != nil {
		return nil, "", err
	}
	defer s.R.Close()
	s.R.NoProj = true
	h := &hostileRun{s: s, rng: rand.New(rand.NewSource(seed)), emit: emit, stats: map[string]int{}}
	emit(J{"ev": "HostileStart", "seed": seed, "state": h.stateTok()})
	// a little history so that stakes, rewards and a proposal exist
	s.R.NoProj = false
	s.Blocks(3, allHdr)
	s.Begin(allHdr)
	s.Stake(4, 1, "3e18")
	s.Propose(1, s.H+2, 4, s.H+9, `{"gasPrice":"20"}`, `{"minTrxGas":"15"}`)
	s.End()
	emit(J{"ev": "Sync", "state": h.stateTok()})
	for round := 0; round < rounds && s.R.Dead == ""; round++ {
		// between blocks: CheckTx and Query
		valid := h.validTxs()
		for _, bz := range h.hostileEnvelopes(valid) {
			h.tx("CheckTx", bz, "envelope")
		}
		for _, bz := range h.hostileSigned() {
			h.tx("CheckTx", bz, "signed")
		}
		for _, bz := range h.hostileFields(valid) {
			h.tx("CheckTx", bz, "field")
		}
		h.queries()
		// inside a block: DeliverTx at every position, with probes in between
		s.Begin(allHdr)
		s.Last = nil
		emit(J{"ev": "Sync", "state": h.stateTok()})
		valid = h.validTxs()
		env := h.hostileEnvelopes(valid)
		sig := h.hostileSigned()
		for i, bz := range env {
			h.tx("DeliverTx", bz, "envelope")
			if i%15 == 7 {
				h.probe()
				h.queries()
			}
		}
		for i, bz := range sig {
			h.tx("DeliverTx", bz, "signed")
			if i%10 == 3 {
				h.probe()
			}
		}
		for i, bz := range h.hostileFields(valid) {
			h.tx("DeliverTx", bz, "field")
			if i%40 == 11 {
				h.probe()
			}
		}
		// proposals that are valid in everything but their type / option list, from validators, built with the current
		// nonce one by one so that each is really judged on its options; accepted ones live on and are settled blocks later
		kr := s.R.KR
		optTypes := []int32{0x0101, 0x0200, 0, -1, math.MaxInt32}
		optLists := [][][]byte{nil, {}, {[]byte(`{"gasPrice":"10"}`)}, {[]byte(`{`)}, {nil}, {[]byte(`{"gasPrice":"10"}`), []byte(`{"minTrxGas":"10"}`)}, {[]byte(`null`)}}
		k := round
		for _, ot := range optTypes {
			ol := optLists[k%len(optLists)]
			k++
			from := 1 + k%3
			s.Last = nil
			var bz []byte
			func() {
				defer func() { _ = recover() }()
				tx := web3.NewTrxProposal(kr.Addr(from), types.ZeroAddress(), s.nonce(from), s.gas(), s.price(), "m", s.H+1+int64(k%2), 2, s.H+6+int64(k%3), ot, ol...)
				bz = s.B.Sign(tx, from, s.Sc.Genesis.ChainID)
			}()
			if bz != nil {
				h.tx("DeliverTx", bz, "proposal-shape")
			}
		}
		h.probe()
		if s.R.Dead != "" {
			break
		}
		s.Last = nil
		s.End()
		emit(J{"ev": "Sync", "state": h.stateTok()})
		if s.R.Dead == "" && round%2 == 0 {
			// a restarted process serves the mempool and queries before it has executed a block: volatile structures
			// (stake limiter, caches) are in their freshly rebuilt state
			s.Last = nil
			s.Restart()
			emit(J{"ev": "Sync", "state": h.stateTok()})
			for _, bz := range h.validTxs() {
				h.tx("CheckTx", bz, "valid-after-restart")
			}
			for _, bz := range h.hostileFields(h.validTxs()[:3]) {
				h.tx("CheckTx", bz, "field-after-restart")
			}
			h.queries()
		}
	}
	if s.R.Dead == "" {
		h.opcodeSweep(int(seed % 3))
	}
	// what was accepted above is settled (voting windows close, proposals are applied) in the following blocks
	for i := 0; i < 10 && s.R.Dead == ""; i++ {
		s.Last = nil
		s.Begin(allHdr)
		for _, id := range s.Proposals() {
			if i%3 == 0 {
				s.Last = nil
				s.Vote(1+i%3, id, int32(i%2))
			}
		}
		emit(J{"ev": "Sync", "state": h.stateTok()})
		h.probe()
		s.Last = nil
		s.End()
		emit(J{"ev": "Sync", "state": h.stateTok()})
	}
	if s.R.Dead != "" {
		// a consensus call (BeginBlock / EndBlock / Commit) panicked while the accepted inputs were being settled
		emit(J{"ev": "Dead", "what": s.R.Dead, "h": small(s.H)})
	}
	return h.stats, s.R.Dead, nil
}
