package main

import (
	"bufio"
	"encoding/json"
	"flag"
	"fmt"
	"os"

	"verifharness/ledgerdrv"
)

func init() {
	register("ledger", "execute ledger operation sequences (file or random) and record a trace", func(args []string) error {
		fs := flag.NewFlagSet("ledger", flag.ExitOnError)
		in := fs.String("in", "", "JSON file with a list of operation sequences (omit for random)")
		out := fs.String("out", "", "ndjson trace to write")
		tmp := fs.String("tmp", os.TempDir(), "scratch directory")
		seed := fs.Int64("seed", 1, "seed for random sequences")
		n := fs.Int("n", 50, "number of random sequences")
		length := fs.Int("len", 40, "length of random sequences")
		nkey := fs.Int("nkey", 2, "number of keys")
		nval := fs.Int("nval", 2, "number of values")
		enum := fs.Int("enum", 0, "instead of random sequences: every sequence of exactly this many overlay operations on one key (both overlays, key absent / committed)")
		_ = fs.Parse(args)
		var seqs [][]ledgerdrv.Op
		if *in != "" {
			bz, err := os.ReadFile(*in)
			if err != nil {
				return err
			}
			if err := json.Unmarshal(bz, &seqs); err != nil {
				return err
			}
		} else if *enum > 0 {
			seqs = ledgerdrv.Enumerate(*enum)
		} else {
			seqs = ledgerdrv.Random(*seed, *n, *length, *nkey, *nval)
		}
		f, err := os.Create(*out)
		if err != nil {
			return err
		}
		defer f.Close()
		w := bufio.NewWriterSize(f, 1<<20)
		cnt, err := ledgerdrv.ExecAll(seqs, *nkey, *tmp, w)
		if err != nil {
			return err
		}
		fmt.Printf("{\"traces\":%d,\"events\":%d}\n", len(seqs), cnt)
		return nil
	})
}
