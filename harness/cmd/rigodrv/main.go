// rigodrv is the conformance driver of the verification framework: every
// subcommand executes inputs on the real rigo-go code (built from /repo with
// -tags verif) and writes ndjson traces for TLC.
package main

import (
	"fmt"
	"os"
	"syscall"
)

type command struct {
	name string
	help string
	run  func(args []string) error
}

var commands []command

func register(name, help string, run func(args []string) error) {
	commands = append(commands, command{name, help, run})
}

func main() {
	// many application instances are opened one after another; some of their databases are never closed by the application
	var lim syscall.Rlimit
	if syscall.Getrlimit(syscall.RLIMIT_NOFILE, &lim) == nil {
		lim.Cur = lim.Max
		_ = syscall.Setrlimit(syscall.RLIMIT_NOFILE, &lim)
	}
	if len(os.Args) < 2 {
		fmt.Fprintln(os.Stderr, "usage: rigodrv <command> [flags]")
		for _, c := range commands {
			fmt.Fprintf(os.Stderr, "  %-16s %s\n", c.name, c.help)
		}
		os.Exit(2)
	}
	for _, c := range commands {
		if c.name == os.Args[1] {
			if err := c.run(os.Args[2:]); err != nil {
				fmt.Fprintln(os.Stderr, "rigodrv:", err)
				os.Exit(2)
			}
			return
		}
	}
	fmt.Fprintln(os.Stderr, "unknown command", os.Args[1])
	os.Exit(2)
}
