package main

import (
	"bufio"
	"encoding/json"
	"flag"
	"fmt"
	"os"

	"verifharness/pvdrv"
)

func init() {
	register("pv", "execute signer request sequences (file or random) and record a trace", func(args []string) error {
		fs := flag.NewFlagSet("pv", flag.ExitOnError)
		in := fs.String("in", "", "JSON file with a list of step sequences (omit for random)")
		out := fs.String("out", "", "ndjson trace to write")
		tmp := fs.String("tmp", os.TempDir(), "scratch directory")
		seed := fs.Int64("seed", 1, "seed")
		n := fs.Int("n", 50, "number of random sequences")
		length := fs.Int("len", 30, "length of random sequences")
		maxH := fs.Int64("maxh", 6, "largest height")
		_ = fs.Parse(args)
		var seqs [][]pvdrv.Step
		if *in != "" {
			bz, err := os.ReadFile(*in)
			if err != nil {
				return err
			}
			if err := json.Unmarshal(bz, &seqs); err != nil {
				return err
			}
		} else {
			seqs = pvdrv.Random(*seed, *n, *length, *maxH)
		}
		f, err := os.Create(*out)
		if err != nil {
			return err
		}
		defer f.Close()
		w := bufio.NewWriterSize(f, 1<<20)
		cnt, err := pvdrv.ExecAll(seqs, *tmp, w)
		if err != nil {
			return err
		}
		fmt.Printf("{\"traces\":%d,\"events\":%d}\n", len(seqs), cnt)
		return nil
	})
}
