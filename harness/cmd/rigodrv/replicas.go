package main

import (
	"encoding/json"
	"flag"
	"fmt"
	"math/rand"
	"os"
	"os/exec"
	"path/filepath"
	"sort"
	"strings"
	"time"

	"verifharness/appdrv"
)

func scenarioFiles(dir string) ([]string, error) {
	ents, err := os.ReadDir(dir)
	if err != nil {
		return nil, err
	}
	var out []string
	for _, e := range ents {
		if strings.HasSuffix(e.Name(), ".json") {
			out = append(out, filepath.Join(dir, e.Name()))
		}
	}
	sort.Strings(out)
	return out, nil
}

// replayVariant runs exactly one saved (history, variant) pair.
func replayVariant(file, out, tmp string) error {
	vf, err := appdrv.LoadVariant(file)
	if err != nil {
		return err
	}
	f, err := os.Create(out)
	if err != nil {
		return err
	}
	defer f.Close()
	sink := appdrv.NewSink(f)
	rootA, _ := os.MkdirTemp(tmp, "repA-")
	defer os.RemoveAll(rootA)
	if appdrv.RefreshClockProbes(vf.Base) > 0 {
		appdrv.RefreshClockProbes(vf.Variant)
	}
	startA := time.Now()
	a, _, err := appdrv.RunOutputs(vf.Base, "A", rootA, true)
	if err != nil {
		return err
	}
	var b []*appdrv.Output
	if vf.How == "process" {
		laterSecond(startA)
		scfile := filepath.Join(rootA, "variant-scenario.json")
		bz, _ := json.Marshal(vf.Variant)
		if err := os.WriteFile(scfile, bz, 0o644); err != nil {
			return err
		}
		bfile := filepath.Join(rootA, "b.json")
		cmd := exec.Command(os.Args[0], "outputs", "-scenario", scfile, "-name", "B", "-tmp", tmp, "-out", bfile)
		if o, err := cmd.CombinedOutput(); err != nil {
			return fmt.Errorf("replica process failed: %v: %s", err, o)
		}
		bz, _ = os.ReadFile(bfile)
		if err := json.Unmarshal(bz, &b); err != nil {
			return err
		}
	} else {
		rootB, _ := os.MkdirTemp(tmp, "repB-")
		defer os.RemoveAll(rootB)
		b, _, err = appdrv.RunOutputs(vf.Variant, "B", rootB, true)
		if err != nil {
			return err
		}
	}
	v := &appdrv.Variant{Desc: vf.Desc, Sc: vf.Variant, Map: vf.Map}
	pairs := appdrv.PairEvents(vf.Prop, 0, v, a, b, sink.Emit)
	sink.Flush()
	fmt.Printf("{\"traces\":1,\"events\":%d,\"pairs\":%d,\"scenarios\":1}\n", sink.N, pairs)
	return nil
}

// laterSecond waits until the wall clock is at least 1.1 s past t: two replicas never start within the same second.
func laterSecond(t time.Time) {
	if d := 1100*time.Millisecond - time.Since(t); d > 0 {
		time.Sleep(d)
	}
}

func init() {
	register("outputs", "execute a scenario and print the comparable outputs as JSON (used as a separate process)", func(args []string) error {
		fs := flag.NewFlagSet("outputs", flag.ExitOnError)
		in := fs.String("scenario", "", "scenario file")
		name := fs.String("name", "B", "replica name")
		tmp := fs.String("tmp", os.TempDir(), "scratch directory")
		out := fs.String("out", "", "output JSON file")
		_ = fs.Parse(args)
		sc, err := appdrv.LoadScenario(*in)
		if err != nil {
			return err
		}
		root, err := os.MkdirTemp(*tmp, "other-process-")
		if err != nil {
			return err
		}
		defer os.RemoveAll(root)
		outs, _, err := appdrv.RunOutputs(sc, *name, root, true)
		if err != nil {
			return err
		}
		bz, _ := json.Marshal(outs)
		return os.WriteFile(*out, bz, 0o644)
	})

	register("replicas", "run scenarios on several replicas (determinism / isolation / restart) and record the joint trace", func(args []string) error {
		fs := flag.NewFlagSet("replicas", flag.ExitOnError)
		mode := fs.String("mode", "det", "det | iso | restart")
		scdir := fs.String("scenarios", "", "directory with base scenario files")
		out := fs.String("out", "", "joint ndjson trace")
		tmp := fs.String("tmp", os.TempDir(), "scratch directory")
		seed := fs.Int64("seed", 1, "seed")
		budget := fs.Int("budget", 300, "maximum number of variants per scenario")
		full := fs.Bool("full", false, "larger injection pools / restart subsets")
		vdir := fs.String("variants", "", "directory to save differing (history, variant) pairs to, as self-contained replay files")
		replayFile := fs.String("replay", "", "a replay file written by -variants: run exactly that pair")
		_ = fs.Parse(args)
		if *replayFile != "" {
			return replayVariant(*replayFile, *out, *tmp)
		}
		files, err := scenarioFiles(*scdir)
		if err != nil {
			return err
		}
		f, err := os.Create(*out)
		if err != nil {
			return err
		}
		defer f.Close()
		sink := appdrv.NewSink(f)
		rng := rand.New(rand.NewSource(*seed))
		variants, pairs := 0, 0
		k := 0
		for _, file := range files {
			sc, err := appdrv.LoadScenario(file)
			if err != nil {
				return err
			}
			rootA, _ := os.MkdirTemp(*tmp, "repA-")
			switch *mode {
			case "det":
				if appdrv.RefreshClockProbes(sc) > 0 {
					// replica B reads the scenario from a file: the re-signed one
					file = filepath.Join(rootA, "refreshed-"+filepath.Base(file))
					if err := appdrv.SaveScenario(sc, file); err != nil {
						return err
					}
				}
				startA := time.Now()
				a, _, err := appdrv.RunOutputs(sc, "A", rootA, true)
				if err != nil {
					return err
				}
				// replica B: another OS process, another directory, started later (in another second of the wall clock)
				laterSecond(startA)
				bfile := filepath.Join(rootA, "b.json")
				cmd := exec.Command(os.Args[0], "outputs", "-scenario", file, "-name", "B", "-tmp", *tmp, "-out", bfile)
				if o, err := cmd.CombinedOutput(); err != nil {
					return fmt.Errorf("replica process failed: %v: %s", err, o)
				}
				var b []*appdrv.Output
				bz, _ := os.ReadFile(bfile)
				if err := json.Unmarshal(bz, &b); err != nil {
					return err
				}
				v := appdrv.Identity(sc, "separate process, separate directory: "+filepath.Base(file))
				n := appdrv.PairEvents("C01", k, v, a, b, sink.Emit)
				if v.Differs(a, b) {
					appdrv.SaveVariant(*vdir, "C01", k, "process", sc, v)
				}
				pairs += n
				k++
				variants++
				// replica C: restarted at random block boundaries (in-process)
				rv := appdrv.RestartVariant(sc, rng, 0.2, "restarts at random boundaries: "+filepath.Base(file))
				rootC, _ := os.MkdirTemp(*tmp, "repC-")
				c, _, err := appdrv.RunOutputs(rv.Sc, "B", rootC, true)
				if err != nil {
					return err
				}
				pairs += appdrv.PairEvents("C01", k, rv, a, c, sink.Emit)
				if rv.Differs(a, c) {
					appdrv.SaveVariant(*vdir, "C01", k, "inproc", sc, rv)
				}
				k++
				variants++
				os.RemoveAll(rootC)
				// replica D: restarted after every third block (independent of the seed)
				dv := appdrv.EveryNthRestart(sc, 3, 1, "restart after every third block: "+filepath.Base(file))
				rootD, _ := os.MkdirTemp(*tmp, "repD-")
				d, _, err := appdrv.RunOutputs(dv.Sc, "B", rootD, true)
				if err != nil {
					return err
				}
				pairs += appdrv.PairEvents("C01", k, dv, a, d, sink.Emit)
				if dv.Differs(a, d) {
					appdrv.SaveVariant(*vdir, "C01", k, "inproc", sc, dv)
				}
				k++
				variants++
				os.RemoveAll(rootD)
			case "iso":
				vs, a, err := appdrv.IsolationVariants(sc, rootA, rng, *budget, *full)
				if err != nil {
					return err
				}
				for _, v := range vs {
					rootB, _ := os.MkdirTemp(*tmp, "repB-")
					b, _, err := appdrv.RunOutputs(v.Sc, "B", rootB, true)
					if err != nil {
						return err
					}
					pairs += appdrv.PairEvents("C06", k, v, a, b, sink.Emit)
					if v.Differs(a, b) {
						appdrv.SaveVariant(*vdir, "C06", k, "inproc", sc, v)
					}
					k++
					variants++
					os.RemoveAll(rootB)
				}
			case "restart":
				a, _, err := appdrv.RunOutputs(sc, "A", rootA, true)
				if err != nil {
					return err
				}
				for _, v := range appdrv.RestartVariants(sc, rng, *budget, *full) {
					rootB, _ := os.MkdirTemp(*tmp, "repB-")
					b, _, err := appdrv.RunOutputs(v.Sc, "B", rootB, true)
					if err != nil {
						return err
					}
					pairs += appdrv.PairEvents("C07", k, v, a, b, sink.Emit)
					if v.Differs(a, b) {
						appdrv.SaveVariant(*vdir, "C07", k, "inproc", sc, v)
					}
					k++
					variants++
					os.RemoveAll(rootB)
				}
			}
			os.RemoveAll(rootA)
		}
		sink.Flush()
		fmt.Printf("{\"traces\":%d,\"events\":%d,\"pairs\":%d,\"scenarios\":%d}\n", variants, sink.N, pairs, len(files))
		return nil
	})
}
