package main

import (
	"flag"
	"fmt"
	"os"
	"path/filepath"

	"verifharness/appdrv"
)

func init() {
	register("random", "run seeded random block histories on the real application and record traces", func(args []string) error {
		fs := flag.NewFlagSet("random", flag.ExitOnError)
		out := fs.String("out", "", "ndjson trace to write")
		tmp := fs.String("tmp", os.TempDir(), "scratch directory")
		seed := fs.Int64("seed", 1, "seed")
		n := fs.Int("n", 5, "number of histories")
		blocks := fs.Int("blocks", 25, "blocks per history")
		maxtx := fs.Int("maxtx", 5, "max transactions per block")
		family := fs.Int("family", -1, "genesis family (-1: rotate)")
		boundary := fs.Bool("boundary", false, "use 256-bit boundary amounts")
		evm := fs.Bool("evm", false, "project contract storage/code")
		scdir := fs.String("scenarios", "", "directory to save the scenarios to")
		_ = fs.Parse(args)
		f, err := os.Create(*out)
		if err != nil {
			return err
		}
		defer f.Close()
		sink := appdrv.NewSink(f)
		dead := 0
		for i := 0; i < *n; i++ {
			s := *seed*1000 + int64(i)
			fam := *family
			if fam < 0 {
				fam = i
			}
			g, na := appdrv.Family(fam, s)
			p := appdrv.DefaultProfile()
			p.Blocks, p.MaxTxs = *blocks, *maxtx
			p.BusyFirstBlock = i%8 == 7
			if *boundary {
				g, na = appdrv.BoundaryFamily(s)
				p.Boundary = true
			}
			root, err := os.MkdirTemp(*tmp, "rnd-")
			if err != nil {
				return err
			}
			sc, r, err := appdrv.RunRandom(s, g, na, p, root, sink.Emit, appdrv.ProjOpts{EVM: *evm}, nil)
			if err != nil {
				return err
			}
			if r.Dead != "" {
				dead++
			}
			if *scdir != "" {
				_ = appdrv.SaveScenario(sc, filepath.Join(*scdir, fmt.Sprintf("sc-%d.json", s)))
			}
			_ = os.RemoveAll(root)
		}
		sink.Flush()
		fmt.Printf("{\"traces\":%d,\"events\":%d,\"dead\":%d}\n", *n, sink.N, dead)
		return nil
	})
}
