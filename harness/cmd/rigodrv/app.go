package main

import (
	"flag"
	"fmt"
	"os"
	"path/filepath"
	"strings"

	"verifharness/appdrv"
)

func init() {
	register("random", "run seeded random block histories on the real application and record traces", func(args []string) error {
		fs := flag.NewFlagSet("random", flag.ExitOnError)
		out := fs.String("out", "", "ndjson trace to write")
		tmp := fs.String("tmp", os.TempDir(), "scratch directory")
		seed := fs.Int64("seed", 1, "seed")
		n := fs.Int("n", 5, "number of histories")
		blocks := fs.Int("blocks", 25, "blocks per history")
		maxtx := fs.Int("maxtx", 5, "max transactions per block")
		family := fs.Int("family", -1, "genesis family (-1: rotate)")
		boundary := fs.Bool("boundary", false, "use 256-bit boundary amounts")
		evm := fs.Bool("evm", false, "project contract storage/code")
		scdir := fs.String("scenarios", "", "directory to save the scenarios to")
		queries := fs.Int("queries", 0, "up to this many queries after every consensus call")
		prestart := fs.Float64("prestart", 0, "probability of a restart after a commit")
		pcheck := fs.Float64("pcheck", 0.08, "probability that a generated transaction only goes to CheckTx")
		_ = fs.Parse(args)
		f, err := os.Create(*out)
		if err != nil {
			return err
		}
		defer f.Close()
		sink := appdrv.NewSink(f)
		dead := 0
		for i := 0; i < *n; i++ {
			s := *seed*1000 + int64(i)
			fam := *family
			if fam < 0 {
				fam = i
			}
			g, na := appdrv.Family(fam, s)
			p := appdrv.DefaultProfile()
			p.Blocks, p.MaxTxs = *blocks, *maxtx
			p.BusyFirstBlock = i%8 == 7
			p.Queries, p.PRestart, p.PCheck = *queries, *prestart, *pcheck
			if *evm {
				p.W["contract"] = 7
			}
			if *boundary {
				g, na = appdrv.BoundaryFamily(s)
				p.Boundary = true
			}
			root, err := os.MkdirTemp(*tmp, "rnd-")
			if err != nil {
				return err
			}
			scfile := fmt.Sprintf("sc-%d.json", s)
			emit := func(ev appdrv.J) {
				if ev["ev"] == "Genesis" {
					ev["scfile"] = scfile
				}
				sink.Emit(ev)
			}
			sc, r, err := appdrv.RunRandom(s, g, na, p, root, emit, appdrv.ProjOpts{EVM: *evm}, nil)
			if err != nil {
				return err
			}
			if r.Dead != "" {
				dead++
			}
			if *scdir != "" {
				_ = appdrv.SaveScenario(sc, filepath.Join(*scdir, scfile))
			}
			_ = os.RemoveAll(root)
		}
		sink.Flush()
		fmt.Printf("{\"traces\":%d,\"events\":%d,\"dead\":%d}\n", *n, sink.N, dead)
		return nil
	})
}

func init() {
	register("directed", "run the directed scenarios on the real application and record traces", func(args []string) error {
		fs := flag.NewFlagSet("directed", flag.ExitOnError)
		out := fs.String("out", "", "ndjson trace to write")
		tmp := fs.String("tmp", os.TempDir(), "scratch directory")
		seed := fs.Int64("seed", 1, "seed (key derivation)")
		names := fs.String("names", "", "comma separated scenario names (default all)")
		evm := fs.Bool("evm", false, "project contract storage/code")
		scdir := fs.String("scenarios", "", "directory to save the scenarios to")
		_ = fs.Parse(args)
		f, err := os.Create(*out)
		if err != nil {
			return err
		}
		defer f.Close()
		sink := appdrv.NewSink(f)
		var list []string
		if *names != "" {
			list = strings.Split(*names, ",")
		}
		scs, err := appdrv.RunDirected(list, *seed, *tmp, sink.Emit, *evm)
		if err != nil {
			return err
		}
		if *scdir != "" {
			for n, sc := range scs {
				_ = appdrv.SaveScenario(sc, filepath.Join(*scdir, "dir-"+n+".json"))
			}
		}
		sink.Flush()
		fmt.Printf("{\"traces\":%d,\"events\":%d}\n", len(scs), sink.N)
		return nil
	})
}

func init() {
	register("replay", "re-execute a saved scenario on a fresh replica and record the trace", func(args []string) error {
		fs := flag.NewFlagSet("replay", flag.ExitOnError)
		in := fs.String("scenario", "", "scenario JSON file")
		out := fs.String("out", "", "ndjson trace to write")
		tmp := fs.String("tmp", os.TempDir(), "scratch directory")
		name := fs.String("name", "A", "replica name")
		evm := fs.Bool("evm", false, "project contract storage/code")
		noproj := fs.Bool("noproj", false, "record responses only")
		_ = fs.Parse(args)
		sc, err := appdrv.LoadScenario(*in)
		if err != nil {
			return err
		}
		f, err := os.Create(*out)
		if err != nil {
			return err
		}
		defer f.Close()
		sink := appdrv.NewSink(f)
		root, err := os.MkdirTemp(*tmp, "rep-")
		if err != nil {
			return err
		}
		defer os.RemoveAll(root)
		r, err := appdrv.Replay(sc, *name, root, sink.Emit, appdrv.ProjOpts{EVM: *evm}, *noproj)
		if err != nil {
			return err
		}
		sink.Flush()
		fmt.Printf("{\"traces\":1,\"events\":%d,\"dead\":%q}\n", sink.N, r.Dead)
		return nil
	})
}
