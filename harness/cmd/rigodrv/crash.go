package main

import (
	"flag"
	"fmt"
	"os"

	"verifharness/appdrv"
)

func init() {
	register("crash", "enumerate crash points of the blocks of saved scenarios (C08)", func(args []string) error {
		fs := flag.NewFlagSet("crash", flag.ExitOnError)
		scdir := fs.String("scenarios", "", "directory with scenario files")
		out := fs.String("out", "", "ndjson trace")
		tmp := fs.String("tmp", os.TempDir(), "scratch directory")
		from := fs.Int("from", 2, "first block height to crash in")
		to := fs.Int("to", 3, "last block height to crash in")
		cont := fs.Int("cont", 3, "blocks to continue after recovery")
		_ = fs.Parse(args)
		files, err := scenarioFiles(*scdir)
		if err != nil {
			return err
		}
		f, err := os.Create(*out)
		if err != nil {
			return err
		}
		defer f.Close()
		sink := appdrv.NewSink(f)
		total := 0
		for _, file := range files {
			sc, err := appdrv.LoadScenario(file)
			if err != nil {
				return err
			}
			sink.Emit(appdrv.J{"ev": "CrashScenario", "file": file})
			n, err := appdrv.CrashSweep(sc, *from, *to, *cont, *tmp, sink.Emit)
			if err != nil {
				return fmt.Errorf("%s: %v", file, err)
			}
			total += n
		}
		sink.Flush()
		fmt.Printf("{\"traces\":%d,\"events\":%d,\"crash_points\":%d}\n", len(files), sink.N, total)
		return nil
	})
}
