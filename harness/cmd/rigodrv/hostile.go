package main

import (
	"encoding/json"
	"flag"
	"fmt"
	"os"

	"verifharness/appdrv"
)

func init() {
	register("hostile", "send hostile transactions and queries to the real application (C09)", func(args []string) error {
		fs := flag.NewFlagSet("hostile", flag.ExitOnError)
		out := fs.String("out", "", "ndjson trace to write")
		tmp := fs.String("tmp", os.TempDir(), "scratch directory")
		seed := fs.Int64("seed", 1, "seed")
		n := fs.Int("n", 2, "number of application instances")
		rounds := fs.Int("rounds", 3, "blocks of hostile input per instance")
		_ = fs.Parse(args)
		f, err := os.Create(*out)
		if err != nil {
			return err
		}
		defer f.Close()
		sink := appdrv.NewSink(f)
		total := map[string]int{}
		dead := 0
		for i := 0; i < *n; i++ {
			st, d, err := appdrv.RunHostile(*seed*100+int64(i), *rounds, *tmp, sink.Emit)
			if err != nil {
				return err
			}
			for k, v := range st {
				total[k] += v
			}
			if d != "" {
				dead++
			}
		}
		sink.Flush()
		bz, _ := json.Marshal(map[string]any{"traces": *n, "events": sink.N, "dead": dead, "by_layer": total})
		fmt.Println(string(bz))
		return nil
	})
}
